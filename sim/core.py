"""Batch runner, replay, shrinking, known-findings and evidence for all simulated checks.

Exit codes of a check:  0 = property held on everything explored (KNOWN-FINDING lines allowed)
                        1 = VIOLATION (line `VIOLATION property=<id> replay=<path>` on stdout)
                        2 = HARNESS-ERROR (our machinery failed: timeout, worker death, exception
                            outside the oracle, nondeterminism).  Never reported as 0 or 1.
"""
import faulthandler
import hashlib
import json
import os
import signal
import sys
import time
import traceback
from concurrent.futures import ProcessPoolExecutor, wait, FIRST_COMPLETED
import multiprocessing as mp

VERIF = os.path.dirname(os.path.dirname(os.path.abspath(__file__)))
KNOWN_FILE = os.path.join(VERIF, 'KNOWN_FINDINGS.txt')
RUN_TIMEOUT_S = 120


class HarnessError(Exception):
    pass


class RunTimeout(Exception):
    pass


def sha(obj) -> str:
    if not isinstance(obj, (bytes, bytearray)):
        obj = json.dumps(obj, sort_keys=True, default=str).encode()
    return hashlib.sha256(obj).hexdigest()


def plinio_src() -> str:
    return os.environ.get('PLINIO_SRC', '/repo')


def setup_process():
    """Called once per process (parent and every worker) before plinio is imported."""
    src = plinio_src()
    if sys.path[0] != src:
        sys.path.insert(0, src)
    import warnings
    warnings.filterwarnings('ignore')
    import torch
    torch.set_num_threads(1)
    try:
        torch.set_num_interop_threads(1)
    except RuntimeError:
        pass
    import plinio  # noqa
    real = os.path.realpath(os.path.dirname(os.path.dirname(plinio.__file__)))
    if real != os.path.realpath(src):
        raise HarnessError(f'plinio imported from {real}, expected {src}')


# ----------------------------------------------------------------------------------------------
# executing one case, with a wall-clock alarm; exceptions outside the oracle are harness errors
# ----------------------------------------------------------------------------------------------
def _alarm(signum, frame):
    raise RunTimeout()


def get_prop(pid: str):
    import importlib
    return importlib.import_module('sim.props.' + pid.lower())


def exec_case(pid: str, case: dict) -> dict:
    prop = get_prop(pid)
    old = signal.signal(signal.SIGALRM, _alarm)
    signal.alarm(RUN_TIMEOUT_S)
    t0 = time.time()
    try:
        res = prop.execute(case)
        res.setdefault('failures', [])
        res.setdefault('stats', {})
        res.setdefault('events', [])
        res['digest'] = sha(res['events'])
        res['harness_error'] = None
    except RunTimeout:
        res = {'failures': [], 'stats': {}, 'events': [], 'digest': '',
               'harness_error': f'timeout after {RUN_TIMEOUT_S}s'}
    except Exception:
        res = {'failures': [], 'stats': {}, 'events': [], 'digest': '',
               'harness_error': traceback.format_exc()}
    finally:
        signal.alarm(0)
        signal.signal(signal.SIGALRM, old)
    res['wall'] = time.time() - t0
    return res


def _worker_init():
    faulthandler.enable()
    setup_process()


def _worker_run(args):
    pid, seed, run, tier, keep_events = args
    prop = get_prop(pid)
    try:
        case = prop.generate(seed, run, tier)
    except Exception:
        return {'run': run, 'case': None, 'failures': [], 'stats': {}, 'digest': '',
                'harness_error': 'generate: ' + traceback.format_exc(), 'wall': 0.0}
    res = exec_case(pid, case)
    res['run'] = run
    res['case'] = case
    if not keep_events:
        res.pop('events', None)
    return res


def _worker_run_roundtrip(args):
    """like _worker_run, but the case goes through a JSON round trip with sorted keys first (what a replay file
    or a hand-edited case looks like): the digest must not depend on the key order of the document"""
    pid, seed, run, tier, keep_events = args
    prop = get_prop(pid)
    case = json.loads(json.dumps(prop.generate(seed, run, tier), sort_keys=True))
    res = exec_case(pid, case)
    res['run'] = run
    res.pop('events', None)
    return res


def _worker_exec(args):
    pid, case = args
    res = exec_case(pid, case)
    res.pop('events', None)
    return res


def make_pool(workers: int) -> ProcessPoolExecutor:
    ctx = mp.get_context('fork')
    return ProcessPoolExecutor(max_workers=workers, mp_context=ctx, initializer=_worker_init)


# ----------------------------------------------------------------------------------------------
# known findings
# ----------------------------------------------------------------------------------------------
def load_known(pid: str):
    known, fixed = [], []
    if not os.path.exists(KNOWN_FILE):
        return known, fixed
    for line in open(KNOWN_FILE):
        line = line.strip()
        if not line or line.startswith('#'):
            continue
        kind, _, rest = line.partition(':')
        toks = rest.split()
        kv = dict(t.split('=', 1) for t in toks if '=' in t)
        if kv.get('property') != pid:
            continue
        text = ' '.join(t for t in toks if '=' not in t)
        ent = {'key': kv.get('key'), 'witness': kv.get('witness'), 'text': text, 'raw': line}
        if kind == 'known':
            known.append(ent)
        elif kind == 'fixed':
            fixed.append(ent)
    return known, fixed


SUPPRESS_KNOWN = [True]      # replaying a witness switches suppression off: it must fail as recorded
_known_cache = {}


def key_matches(key: str, sig: str) -> bool:
    return key == sig or key == sig_class(sig)


def known_keys(pid: str):
    """keys of the `known:` findings of a property; an oracle may skip exactly the comparison a key names
    (and must count it). Empty while a witness is replayed."""
    if not SUPPRESS_KNOWN[0]:
        return set()
    if pid not in _known_cache:
        _known_cache[pid] = {k['key'] for k in load_known(pid)[0]}
    return _known_cache[pid]


# ----------------------------------------------------------------------------------------------
# shrinking (delta debugging over the op list + property specific simplifications)
# ----------------------------------------------------------------------------------------------
def sig_class(sig: str) -> str:
    """violation class used while minimising: the signature without its culprit field
    (method:culprit:what -> method:what), so that dropping a bystander fault does not stop shrinking"""
    parts = sig.split(':')
    if len(parts) >= 3:
        return parts[0] + ':' + ':'.join(parts[2:])
    return sig


def _fails_same(pid, case, sig):
    res = exec_case(pid, case)
    if res['harness_error']:
        return False
    return any(sig_class(f['sig']) == sig_class(sig) for f in res['failures'])


def shrink(pid: str, case: dict, sig: str, budget_s: float = 90.0, pool=None) -> dict:
    """Greedy minimisation; keeps a candidate only if a failure with the same signature persists."""
    prop = get_prop(pid)
    t_end = time.time() + budget_s
    best = case
    improved = True
    while improved and time.time() < t_end:
        improved = False
        for cand in prop.shrink_candidates(best):
            if time.time() > t_end:
                break
            if _fails_same(pid, cand, sig):
                best = cand
                improved = True
                break
    return best


def ddmin_ops(case: dict, key: str = 'ops', keep=lambda op: False):
    """Generic candidates: remove chunks of case[key] (halves, quarters, ... single ops)."""
    ops = case[key]
    n = len(ops)
    size = max(n // 2, 1)
    seen = set()
    while size >= 1:
        for start in range(0, n, size):
            chunk = range(start, min(start + size, n))
            new_ops = [op for i, op in enumerate(ops) if i not in chunk or keep(op)]
            if len(new_ops) == n:
                continue
            k = sha(new_ops)
            if k in seen:
                continue
            seen.add(k)
            c = dict(case)
            c[key] = new_ops
            yield c
        if size == 1:
            break
        size //= 2


# ----------------------------------------------------------------------------------------------
# replay files
# ----------------------------------------------------------------------------------------------
def write_replay(pid, seed, run, case, failure, digest, directory=None) -> str:
    directory = directory or os.path.join(VERIF, 'replays')
    os.makedirs(directory, exist_ok=True)
    path = os.path.join(directory, f'{pid}-{seed}-{run}.json')
    with open(path, 'w') as f:
        json.dump({'property': pid, 'seed': seed, 'run': run, 'case': case,
                   'expect': {'sig': failure['sig'], 'clause': failure['clause'],
                              'msg': failure.get('msg', ''), 'digest': digest}},
                  f, indent=1)        # key order is preserved on purpose (no sort_keys)
    return path


def replay_file(path: str):
    """returns (reproduced: bool, res, expect)"""
    rp = json.load(open(path))
    SUPPRESS_KNOWN[0] = False
    try:
        res = exec_case(rp['property'], rp['case'])
    finally:
        SUPPRESS_KNOWN[0] = True
    exp = rp['expect']
    ok = (not res['harness_error']) and any(sig_class(f['sig']) == sig_class(exp['sig']) for f in res['failures'])
    return ok, res, rp


_confirm_dirs = []


def confirm_in_fresh_process(pid, seed, run, case, failure, digest):
    """a failure seen in a worker counts only if the same case fails the same way in a fresh interpreter;
    returns the path of the (unminimised) replay file, or None"""
    import subprocess
    import tempfile
    d = tempfile.mkdtemp(prefix='confirm_', dir=os.path.join(VERIF, 'replays')) if os.path.isdir(
        os.path.join(VERIF, 'replays')) else tempfile.mkdtemp(prefix='confirm_')
    _confirm_dirs.append(d)
    path = write_replay(pid, seed, run, case, failure, digest, directory=d)
    env = dict(os.environ, PYTHONHASHSEED='0')
    cp = subprocess.run([sys.executable, os.path.join(VERIF, 'sim', 'cli.py'), pid, '--replay', path, '--quiet'],
                        env=env, capture_output=True, text=True, timeout=900)
    return path if cp.returncode == 1 else None


# ----------------------------------------------------------------------------------------------
# the batch
# ----------------------------------------------------------------------------------------------
def run_batch(pid: str, tier: str, seed: int, max_runs: int, budget_s: float, workers: int,
              det_samples: int = 6):
    t0 = time.time()
    prop = get_prop(pid)
    setup_process()
    known, fixed = load_known(pid)
    known_key_set = {k['key'] for k in known}
    out = {'violations': [], 'known_hits': {}, 'harness_errors': [], 'lines': []}

    def say(s):
        print(s, flush=True)

    say(f'[{pid}] tier={tier} VERIF_SEED={seed} src={plinio_src()} workers={workers} '
        f'max_runs={max_runs} budget={budget_s}s')

    # 1. witnesses of known / fixed findings ----------------------------------------------------
    witness_stats = {'known_replayed': 0, 'known_still_failing': 0, 'fixed_replayed': 0}
    for ent in known:
        if ent['witness']:
            ok, res, rp = replay_file(os.path.join(VERIF, ent['witness']))
            witness_stats['known_replayed'] += 1
            if res['harness_error']:
                out['harness_errors'].append(f"known witness {ent['witness']}: {res['harness_error']}")
            elif ok:
                witness_stats['known_still_failing'] += 1
                say(f"KNOWN-FINDING: property={pid} {ent['text']} [key={ent['key']} witness={ent['witness']}]")
            else:
                say(f"note: known finding key={ent['key']} no longer reproduces on this tree "
                    f"(witness {ent['witness']} passes)")
    for ent in fixed:
        if ent['witness']:
            path = os.path.join(VERIF, ent['witness'])
            ok, res, rp = replay_file(path)
            witness_stats['fixed_replayed'] += 1
            if res['harness_error']:
                out['harness_errors'].append(f"fixed witness {ent['witness']}: {res['harness_error']}")
            elif res['failures']:
                f0 = res['failures'][0]
                if any(key_matches(k, f0['sig']) for k in known_key_set):
                    continue
                say(f"regression: fixed finding is back: {ent['text']}: {f0['clause']}: {f0.get('msg','')}")
                out['violations'].append({'run': -1, 'replay': path, 'failure': f0,
                                          'case': rp['case']})

    # 2. main exploration -----------------------------------------------------------------------
    results = {}
    stats = {}
    shapes_nontrivial = set()
    shapes_all = set()
    cover = {}
    cover_last_new = {}
    samples = []
    total_steps = 0
    sim_time = 0.0
    n_done = 0
    det_first = {}
    det_checked = 0
    first_failures = []
    unconfirmed = []
    cpu_s = 0.0
    with make_pool(workers) as pool:
        next_run = 0
        pending = {}
        # determinism: the first det_samples runs are executed twice (different worker tasks)
        det_futs = {}
        for r in range(min(det_samples, max_runs)):
            det_futs[pool.submit(_worker_run, (pid, seed, r, tier, False))] = r

        def submit_more():
            nonlocal next_run
            while len(pending) < workers * 3 and next_run < max_runs and \
                    (time.time() - t0) < budget_s:
                pending[pool.submit(_worker_run, (pid, seed, next_run, tier, False))] = next_run
                next_run += 1

        submit_more()
        while pending:
            done, _ = wait(list(pending.keys()), timeout=RUN_TIMEOUT_S * 3,
                           return_when=FIRST_COMPLETED)
            if not done:
                out['harness_errors'].append('no run completed within the batch timeout')
                break
            for fut in done:
                r = pending.pop(fut)
                try:
                    res = fut.result()
                except Exception as e:  # worker died
                    out['harness_errors'].append(f'run {r}: worker failure {e!r}')
                    continue
                n_done += 1
                cpu_s += res.get('wall', 0.0)
                if res['harness_error']:
                    out['harness_errors'].append(f"run {r}: {res['harness_error']}")
                    continue
                if r < det_samples:
                    det_first[r] = res['digest']
                for k, v in res['stats'].items():
                    stats[k] = stats.get(k, 0) + v
                total_steps += res.get('steps', 0)
                sim_time += res.get('sim_time', 0)
                shp = res.get('shape')
                if shp is not None:
                    shapes_all.add(shp)
                    if res.get('nontrivial'):
                        shapes_nontrivial.add(shp)
                if len(samples) < 3 and res.get('nontrivial'):
                    samples.append(prop.sample_view(res['case']))
                for kk, nn_ in (res.get('known_suppressed') or {}).items():
                    out['known_hits'][kk] = out['known_hits'].get(kk, 0) + nn_
                for cat, keys in (res.get('cover') or {}).items():
                    st = cover.setdefault(cat, set())
                    before_n = len(st)
                    st.update(keys)
                    if len(st) > before_n:
                        cover_last_new[cat] = n_done
                fl = res['failures']
                if fl:
                    f0 = fl[0]
                    kk = next((k for k in known_key_set if key_matches(k, f0['sig'])), None)
                    if kk is not None:
                        out['known_hits'][kk] = out['known_hits'].get(kk, 0) + 1
                    elif len(unconfirmed) < 12:
                        cpath = confirm_in_fresh_process(pid, seed, r, res['case'], f0, res['digest'])
                        if cpath is not None:
                            first_failures.append((r, res['case'], f0, res['digest'], cpath))
                        else:
                            # depends on what the worker process did before (state leaking between runs?):
                            # not reportable as a violation without a replay - keep exploring
                            unconfirmed.append((r, f0))
            if first_failures and len(first_failures) >= 1:
                # stop exploring once a violation is in hand: minimise and report it
                for fut in pending:
                    fut.cancel()
                pending = {f: r for f, r in pending.items() if not f.cancelled()}
                # drain what is already running
                for fut in list(pending):
                    try:
                        fut.result(timeout=RUN_TIMEOUT_S * 2)
                    except Exception:
                        pass
                pending = {}
                break
            submit_more()
        # determinism replays
        for fut, r in det_futs.items():
            try:
                res = fut.result(timeout=RUN_TIMEOUT_S * 3)
            except Exception as e:
                out['harness_errors'].append(f'determinism run {r}: worker failure {e!r}')
                continue
            if res['harness_error']:
                out['harness_errors'].append(f"determinism run {r}: {res['harness_error']}")
            elif r in det_first:
                det_checked += 1
                if det_first[r] != res['digest']:
                    out['harness_errors'].append(
                        f'NONDETERMINISM: run {r} gave digests {det_first[r][:12]} / {res["digest"][:12]}')

    # 3. minimise + verify + report violations -----------------------------------------------------
    first_failures.sort(key=lambda t: t[0])
    reported_sigs = set()
    for r, case, f0, dig, cpath in first_failures[:3]:
        if f0['sig'] in reported_sigs:
            continue
        reported_sigs.add(f0['sig'])
        small = shrink(pid, case, f0['sig'])
        res = exec_case(pid, small)
        fs = [f for f in res['failures'] if sig_class(f['sig']) == sig_class(f0['sig'])]
        ok_small = False
        if fs:
            path = write_replay(pid, seed, r, small, fs[0], res['digest'])
            # the minimised replay must reproduce exactly, in a fresh interpreter
            import subprocess
            env = dict(os.environ, PYTHONHASHSEED='0')
            cp = subprocess.run([sys.executable, os.path.join(VERIF, 'sim', 'cli.py'), pid, '--replay', path,
                                 '--quiet'], env=env, capture_output=True, text=True, timeout=600)
            ok_small = cp.returncode == 1
        if ok_small:
            out['violations'].append({'run': r, 'replay': path, 'failure': fs[0], 'case': small})
        else:
            # minimisation happens in this (long-lived) process; if its result does not hold in a fresh interpreter
            # the unminimised case, which was confirmed in a fresh interpreter, is reported instead
            say(f'note: the minimised case of run {r} does not reproduce in a fresh process; reporting the '
                f'unminimised, confirmed case')
            final = os.path.join(VERIF, 'replays', f'{pid}-{seed}-{r}.json')
            os.replace(cpath, final)
            out['violations'].append({'run': r, 'replay': final, 'failure': f0, 'case': case})
    if not out['violations']:
        for r, f0 in unconfirmed[:5]:
            out['harness_errors'].append(
                f'run {r}: failure {f0["sig"]} ({f0["clause"]}: {f0.get("msg", "")[:200]}) was seen in a worker but '
                f'does not reproduce from its case alone in a fresh process: it depends on what the process executed '
                f'before (state leaking between model instances / runs) - no replay can be given')

    import shutil
    for d_ in _confirm_dirs:
        shutil.rmtree(d_, ignore_errors=True)
    wall = time.time() - t0
    for v in out['violations']:
        f = v['failure']
        say(f"violation: {f['clause']}: {f.get('msg', '')}")
        say(f"  minimised case: {json.dumps(prop.sample_view(v['case']), sort_keys=True)[:1500]}")
        say(f"VIOLATION property={pid} replay={v['replay']}")

    # 4. evidence ------------------------------------------------------------------------------------
    if not samples and results is not None:
        # fall back to any generated case so that the evidence shows what cases look like
        try:
            samples.append(prop.sample_view(prop.generate(seed, 0, tier)))
        except Exception:
            pass
    cov = {
        'evaluations': n_done,
        'distinct_nontrivial': len(shapes_nontrivial),
        'distinct_cases': len(shapes_all),
        'rule': prop.RULE,
        'samples': samples,
        'simulated_steps': total_steps,
        'simulated_time': sim_time,
        'simulated_time_unit': getattr(prop, 'SIM_TIME_UNIT', 'ops'),
        'runs_per_hour': int(n_done / max(wall, 1e-9) * 3600),
        'cpu_seconds_in_runs': round(cpu_s, 2),
        'seeds': {'VERIF_SEED': seed, 'run_indices': [0, next_run - 1] if n_done else []},
        'fault_and_probe_counters': dict(sorted(stats.items())),
        'distinct_reached': {cat: len(keys) for cat, keys in sorted(cover.items())},
        'distinct_reached_last_new_after_n_runs': dict(sorted(cover_last_new.items())),
        'determinism_reruns_checked': det_checked,
        'known_finding_hits': out['known_hits'],
        'witnesses': witness_stats,
        'harness_errors': len(out['harness_errors']),
        'components': getattr(prop, 'COMPONENTS', {}),
        'workers': workers,
        'plinio_src': plinio_src(),
    }
    ev = {
        'property_id': pid, 'tier': tier, 'seed': seed, 'level': 'exploration',
        'coverage': cov, 'assumptions': getattr(prop, 'ASSUMPTIONS', []),
        'wall_s': round(wall, 2), 'violations': len(out['violations']),
    }
    os.makedirs(os.path.join(VERIF, 'evidence'), exist_ok=True)
    evp = os.path.join(VERIF, 'evidence', f'{pid}.json')
    if os.environ.get('VERIF_NO_EVIDENCE') != '1':
        with open(evp, 'w') as f:
            json.dump(ev, f, indent=1, sort_keys=True)
    say(f'[{pid}] runs={n_done} distinct_nontrivial={len(shapes_nontrivial)} steps={total_steps} '
        f'violations={len(out["violations"])} known_hits={sum(out["known_hits"].values())} '
        f'harness_errors={len(out["harness_errors"])} wall={wall:.1f}s')
    top = sorted(stats.items(), key=lambda kv: -kv[1])
    say('  counters: ' + ', '.join(f'{k}={v}' for k, v in top[:60]))
    if out['violations']:
        return 1
    if out['harness_errors']:
        for h in out['harness_errors'][:5]:
            say('HARNESS-ERROR ' + h.strip()[-2500:])
        return 2
    return 0
