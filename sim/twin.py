"""Twin execution: replica R runs the base schedule, replica S the same schedule plus injected faults
(crash/restart, observers, observers-as-interrupts). The real code without the fault is the oracle.
R runs first and is recorded; S runs afterwards and is compared with the record op by op.
"""
import hashlib
import json
import torch
from sim.prng import torch_seed
from sim import world as W


def op_label(op):
    k = op['op']
    if k == 'set_flag':
        return f"set_flag:{op['flag']}"
    if k == 'softmax_opts':
        return 'softmax_opts:' + '+'.join(sorted(op['kw']))
    if k == 'train_step' or k == 'backward_only':
        s = k + ':' + op.get('which', 'both')
        if op.get('abort'):
            s += ':abort'
        if op.get('mid'):
            s += ':mid=' + '+'.join(o['op'] for o in op['mid'])
        return s
    if k == 'forward_only':
        return 'forward_only' + (':abort' if op.get('abort') else '')
    if k == 'set_mode':
        return 'set_mode:' + op['mode'] + ('@' + op['scope'].split(':')[0] if op.get('scope') else '')
    if k == 'train_burst':
        return 'train_burst:' + op.get('which', 'both')
    if k == 'perturb_net':
        return 'perturb_net:' + op['style']
    if k == 'perturb_arch':
        return 'perturb_arch:' + op['style'] + (':' + op['write'] if op.get('write', 'copy') != 'copy' else '')
    return k


def shape_of(case):
    cfg = case['cfg']
    key = [cfg['method'], sorted(cfg.get('ctor', {}).items()), cfg['cost'],
           [op_label(o) + ('!' if o.get('inject') else '') for o in case['ops']],
           sorted((k, str(v)) for k, v in cfg['spec'].get('feats', {}).items())]
    return hashlib.sha256(json.dumps(key, default=str).encode()).hexdigest()


def drop_volatile(model):
    model.zero_grad(set_to_none=True)
    n = 0
    for mod in model.modules():
        for name, b in list(mod._buffers.items()):
            if b is not None and (b.grad_fn is not None or b.requires_grad):
                mod._buffers[name] = b.detach()
                n += 1
        ta = mod.__dict__.get('theta_alpha')
        if isinstance(ta, torch.Tensor) and ta.grad_fn is not None:
            mod.__dict__['theta_alpha'] = ta.detach()
            n += 1
    return n


def obs_kind(path):
    p = path.strip('/').split('/')
    return p[0] if p and p[0] else 'value'


def run_twin(case, compare_sections=('params', 'rg', 'flags', 'grads'), probe_forward_first=True,
             on_restore=None, double_export=False, construction_layout='skip'):
    """returns result dict (failures carry 'clause','sig','msg')."""
    cfg = case['cfg']
    run_seed = case['run_seed']
    method = cfg['method']
    events, failures, stats = [], [], {}

    def bump(k, n=1):
        stats[k] = stats.get(k, 0) + n

    def fail(clause, what, msg, culprit):
        failures.append({'clause': clause, 'sig': f'{method}:{culprit}:{what}', 'msg': msg})

    bseed = torch_seed(run_seed, 'build')

    def snapshot(reads):
        out = {}
        for sec, dct in reads.items():
            out[sec] = {n: (v.clone() if isinstance(v, torch.Tensor) else v) for n, v in dct.items()}
        return out

    # ---- pass 1: the reference replica runs the whole base schedule (and its probe) BEFORE the subject exists,
    # and everything it shows is recorded. Faults injected on S later can therefore not reach R through state
    # shared between model instances (class attributes, module globals, caches): such a leak changes S only.
    R = W.Replica(cfg, bseed, 'R')
    r0r = snapshot(W.pure_reads(R.model))
    rec = {}
    ref_dead_at = None
    for idx, op in enumerate(case['ops']):
        k = op['op']
        if k == 'crash_restart':
            rec[idx] = {'graphs': drop_volatile(R.model)}
            continue
        if op.get('inject'):
            continue
        try:
            o_ = W.apply_op(R, op, idx, run_seed, side_hook=None)
        except Exception as e:
            rec[idx] = {'exc': e}
            ref_dead_at = idx
            break
        rec[idx] = {'obs': o_, 'reads': snapshot(W.pure_reads(R.model))}
    pr = None
    if ref_dead_at is None:
        pr = W.full_probe(R, run_seed, forward_first=probe_forward_first)
    del R

    # ---- pass 2: the subject replica, with the faults
    S = W.Replica(cfg, bseed, 'S')
    r0s = W.pure_reads(S.model)
    d0 = W.compare_reads(r0s, r0r, ('params', 'bufs', 'rg', 'flags'))
    if d0:
        # same keys and shapes but other values: the harness is not deterministic. Other keys or shapes: two wrappers
        # built by the same script in ONE process do not have the same state_dict layout (naming or sizing that depends
        # on what was built before / on addresses) - a checkpoint of one cannot be loaded into the other
        lay_r = {sec: {n: tuple(v.shape) for n, v in r0r[sec].items()} for sec in ('params', 'bufs')}
        lay_s = {sec: {n: tuple(v.shape) for n, v in r0s[sec].items()} for sec in ('params', 'bufs')}
        if lay_r == lay_s:
            raise RuntimeError(f'harness: twin replicas differ right after construction: {d0[:3]}')
        only_r = sorted(set(lay_r['params']) | set(lay_r['bufs']) - set(lay_s['params']) - set(lay_s['bufs']))
        only_s = sorted((set(lay_s['params']) | set(lay_s['bufs'])) - set(lay_r['params']) - set(lay_r['bufs']))
        only_r = [n for n in only_r if n not in lay_s['params'] and n not in lay_s['bufs']]
        shp = [n for sec in ('params', 'bufs') for n in lay_r[sec] if n in lay_s[sec] and lay_r[sec][n] != lay_s[sec][n]]
        stats['construction_layout_differs_between_two_wrappers_of_one_process'] = 1
        if construction_layout == 'fail':
            fail('two wrappers constructed by the same script in one process do not have the same state_dict keys / '
                 'shapes: the checkpoint of one cannot be loaded into the other',
                 'restore-keys', f'only_first={only_r[:4]} only_second={only_s[:4]} shape_mismatch={shp[:4]}', 'construction')
        return {'failures': failures, 'events': ['construction: state_dict layouts differ'], 'stats': stats, 'steps': 0,
                'nontrivial': False, 'shape': shape_of(case), 'sim_time': 0}
    last_fault = None         # label of the most recent injected fault (culprit of a later divergence)
    fault_since_state_op = False
    nontrivial = False
    state_op_seen = False
    steps = 0
    ref_dead = False
    need_forward = False      # C17: observations are promised "after the usual forward pass" only
    # self-consistency of cost reads: between two read_cost ops separated only by calls that cannot change the
    # cost (mode switches, train_* group switches, PIT train_* flags, observers, summary reads) the value must
    # not move - on either replica (an observer that is impure but idempotent is invisible to the twin comparison)
    COST_PRESERVING = ('set_mode', 'train_nas_only', 'train_net_only', 'train_net_and_nas', 'read_cost',
                       'read_summary')
    last_cost = {'S': None, 'R': None}
    last_cost_idx = [0]

    def inject(op, idx, sub):
        nonlocal last_fault, fault_since_state_op
        torch.manual_seed(torch_seed(run_seed, 'inject', idx, sub))
        bump('fault_' + op['op'] + ('_mid_step' if sub != 0 else ''))
        if sub != 0 and op.get('at', 'mid') != 'mid':
            bump('fault_interrupt_at_' + op['at'])
        if len({m_.training for m_ in S.model.modules()}) > 1:
            bump('fault_with_model_in_mixed_training_status')
        last_fault = op['op'] + (':mid' if sub != 0 else '')
        fault_since_state_op = True
        try:
            if op.get('no_grad') == 'inference':
                # reporting / validation code often runs under torch.inference_mode() ...
                with torch.inference_mode():
                    W.apply_observer(S, op)
            elif op.get('no_grad'):
                # ... or under torch.no_grad()
                with torch.no_grad():
                    W.apply_observer(S, op)
            else:
                W.apply_observer(S, op)
            return True
        except Exception as e:
            # an observer that raises is not by itself a C18 violation (whether export succeeds is the
            # business of the export properties): the simulated loop catches the exception, as it does
            # for an aborted forward, and the run goes on - the model must still be unchanged
            bump('observer_raised_' + type(e).__name__)
            events.append(f"{idx} observer {op['op']} raised {type(e).__name__}")
            return False

    for idx, op in enumerate(case['ops']):
        if failures:
            break
        steps += 1
        k = op['op']
        if k == 'crash_restart':
            bump('fault_crash_restart')
            # crash-point classification (probes)
            prev = case['ops'][idx - 1] if idx > 0 else None
            cls = 'after_construction' if prev is None else 'after_' + op_label(prev).split(':mid')[0]
            bump('crashpoint_' + cls.replace(':', '_'))
            bump('crashpoint_in_' + ('train' if S.model.training else 'eval') + '_mode')
            if any(p.grad is not None for p in S.model.parameters()):
                bump('crashpoint_with_pending_grads')
            if len({m_.training for m_ in S.model.modules()}) > 1:
                bump('fault_with_model_in_mixed_training_status')
            try:
                torch.manual_seed(torch_seed(run_seed, 'rebuild-prologue', idx))
                res, fresh_sd, saved_sd = S.crash_restart(torch_seed(run_seed, 'rebuild', idx),
                                                          stale_example=op.get('stale_example', False),
                                                          prologue=op.get('prologue', ()),
                                                          config_after_load=op.get('config_after_load', False))
                if op.get('prologue'):
                    bump('fault_restart_with_script_prologue')
                if op.get('config_after_load'):
                    bump('fault_restart_config_reissued_after_load')
            except Exception as e:
                fail('restoring the checkpoint into a freshly constructed wrapper raised', 'restore-raises',
                     f'{type(e).__name__}: {str(e)[:300]}', 'restart')
                break
            # relaxation: a crash loses volatile in-flight state (pending gradients, autograd graphs still
            # hanging on sampled-coefficient tensors); it is dropped on the reference as well
            n_graphs = rec[idx]['graphs']
            if n_graphs:
                bump('relax_autograd_graphs_dropped_on_reference', n_graphs)
            last_fault = 'restart'
            fault_since_state_op = True
            need_forward = True
            last_cost['S'] = last_cost['R'] = None
            if op.get('stale_example'):
                bump('fault_stale_process_input_example')
            miss, unexp = list(res.missing_keys), list(res.unexpected_keys)
            if miss or unexp or fresh_sd != saved_sd:
                only_f = sorted(set(fresh_sd) - set(saved_sd))
                only_s = sorted(set(saved_sd) - set(fresh_sd))
                shp = [k2 for k2 in fresh_sd if k2 in saved_sd and fresh_sd[k2] != saved_sd[k2]]
                fail('state_dict of the checkpoint and of a freshly constructed wrapper do not have the same keys/shapes',
                     'restore-keys', f'missing={miss[:4]} unexpected={unexp[:4]} only_fresh={only_f[:4]} '
                     f'only_saved={only_s[:4]} shape_mismatch={shp[:4]}', 'restart')
                break
            rg_ = W.pure_reads(S.ghost)
            rs_ = W.pure_reads(S.model)
            dd = W.compare_reads(rg_, rs_, ('params', 'bufs', 'rg', 'flags'))
            events.append(f'{idx} crash_restart S={W.reads_digest(rs_)} ghost={W.reads_digest(rg_)}')
            if dd:
                sec, name, det = dd[0]
                fail('the restored wrapper differs from the pre-crash object right after load_state_dict',
                     'restore-' + sec, f'{sec} {name}: ghost {det} restored', 'restart')
                break
            if on_restore is not None:
                on_restore(S, idx, bump)
            continue
        if op.get('inject'):
            ok = inject(op, idx, 0)
            rs_ = W.pure_reads(S.model)
            events.append(f'{idx} inject {k} S={W.reads_digest(rs_)}')
            continue
        # ---- base op on both replicas ---------------------------------------------------------
        mids = op.get('mid') or []

        def side_hook(point, _mids=mids, _idx=idx):
            # in-flight points of a training step: 'pre_forward' (gradients zeroed, pass not started), 'mid' (between
            # the forward pass and the cost read - the default), 'pre_backward' (loss and cost graph built, not yet
            # back-propagated)
            for j, mo in enumerate(_mids):
                if mo.get('at', 'mid') == point:
                    # the scheduler owns the torch RNG: the stream the rest of the step sees is the one the reference
                    # saw (RNG consumption by an observer is not an observable difference, DESIGN 2 C18)
                    st_ = torch.get_rng_state()
                    try:
                        inject(mo, _idx, j + 1)
                    finally:
                        torch.set_rng_state(st_)

        def run(rep, hook):
            try:
                return W.apply_op(rep, op, idx, run_seed, side_hook=hook), None
            except Exception as e:
                return None, e
        obs_r, exc_r = rec[idx].get('obs'), rec[idx].get('exc')
        if exc_r is not None:
            # the base schedule itself is not a legal history: stop (not a violation)
            bump('base_op_raised_on_reference')
            events.append(f'{idx} {op_label(op)} reference raised {type(exc_r).__name__}')
            ref_dead = True
            break
        obs_s, exc_s = run(S, side_hook if mids else None)
        if k in ('train_step', 'train_burst', 'backward_only', 'forward_only', 'opt_step', 'perturb_arch', 'perturb_net', 'load_ckpt'):
            state_op_seen = True
        if obs_r.get('aborted'):
            bump('fault_abort_forward')
        elif k in ('train_step', 'train_burst', 'backward_only', 'forward_only'):
            need_forward = False
        if k == 'read_cost':
            for nm_, ob_ in (('R', obs_r), ('S', obs_s)):
                if ob_ is None:
                    continue
                if last_cost[nm_] is not None:
                    bump('cost_stability_checks')
                    d_ = W.diff(W.norm(last_cost[nm_]), W.norm(ob_))
                    if d_:
                        fail('two cost reads separated only by calls that cannot change the cost return different values',
                             'cost-not-stable', f'replica {nm_}: {d_[0]}: {d_[1]} then {d_[2]} (ops in between: '
                             f'{[op_label(o) for o in case["ops"][last_cost_idx[0] + 1:idx]]})', last_fault or 'none')
                        break
                last_cost[nm_] = ob_
            last_cost_idx[0] = idx
        elif not (k in COST_PRESERVING or (k == 'set_flag' and op['flag'] != 'discrete_cost')):
            last_cost['S'] = last_cost['R'] = None
        if failures:
            break
        if need_forward and k in ('read_cost', 'read_summary'):
            # the restored model has not yet seen a complete forward pass: the statement promises
            # nothing about cost/summary here (SuperNet keeps its sampled coefficients outside the
            # state_dict and recomputes them on forward)
            bump('read_before_first_forward_after_restart_not_compared')
            obs_s = obs_r
        if failures:
            break
        culprit = last_fault or 'none'
        if exc_s is not None:
            fail('the search cannot continue after the fault: an op that succeeds on the reference raises',
                 'continue-raises', f'{op_label(op)} raised {type(exc_s).__name__}: {str(exc_s)[:200]}', culprit)
            break
        rs_, rr_ = W.pure_reads(S.model), rec[idx]['reads']
        events.append(f'{idx} {op_label(op)} S={W.reads_digest(rs_)} R={W.reads_digest(rr_)} '
                      f'obs={hashlib.sha1(json.dumps(obs_s, sort_keys=True).encode()).hexdigest()[:10]}')
        if last_fault is not None:
            bump('oracle_checks_after_fault')
            if state_op_seen:
                nontrivial = True
        d = W.diff(W.norm(obs_r), W.norm(obs_s))
        if d:
            path, a, b = d
            fail(f'the value returned by {k} differs from the fault-free reference', 'obs-' + obs_kind(path),
                 f'{op_label(op)} {path}: reference={a} subject={b}', culprit)
            break
        dd = W.compare_reads(rr_, rs_, compare_sections)
        if dd:
            sec, name, det = dd[0]
            fail({'params': 'parameters', 'rg': 'requires_grad flags', 'flags': 'training flags',
                  'grads': 'gradients', 'bufs': 'buffers'}[sec] + ' differ from the fault-free reference',
                 'state-' + sec, f'after {op_label(op)}: {sec} {name}: reference {det} subject', culprit)
            break
        if W.compare_reads(rr_, rs_, ('bufs',)):
            bump('buffer_diverged_unflagged')
    # ---- final probe ------------------------------------------------------------------------------
    if not failures and not ref_dead:
        ps = W.full_probe(S, run_seed, forward_first=probe_forward_first)
        events.append('probe R=' + hashlib.sha1(json.dumps(pr, sort_keys=True).encode()).hexdigest()[:12] +
                      ' S=' + hashlib.sha1(json.dumps(ps, sort_keys=True).encode()).hexdigest()[:12])
        bump('final_probes')
        for key in pr:
            if isinstance(pr[key], dict) and '__raised' in pr[key]:
                bump('probe_part_raised_on_reference')
        if last_fault is not None:
            bump('oracle_checks_after_fault')
            if state_op_seen:
                nontrivial = True
        if isinstance(pr.get('out_eval'), dict) and '__raised' in pr['out_eval']:
            # the reference itself cannot complete the probe's forward pass: not a legal history for the probe
            bump('probe_forward_raised_on_reference_probe_skipped')
            d = None
            double_export = False
        else:
            d = W.diff(pr, ps)
        if d:
            path, a, b = d
            a_s, b_s = str(a)[:160], str(b)[:160]
            fail('the final probe (outputs, costs, summary, exported network) differs from the fault-free reference',
                 'probe-' + '.'.join(path.strip('/').split('/')[:2 if path.startswith('/export') else 1]),
                 f'{path}: reference={a_s} subject={b_s}', last_fault or 'none')
        elif double_export:
            xp, _ = W.data_for(cfg, run_seed, 10 ** 6)

            def export_view():
                e = S.model.export()
                v = {'struct': W.module_signature(e),
                     'state': {k2: W.tdigest(v2) for k2, v2 in e.state_dict().items()}}
                e.eval()
                with torch.no_grad():
                    v['out'] = W.guarded(lambda: W.tensor_list(W.call_model(e, xp)))
                return v
            S.model.eval()
            e1 = W.guarded(export_view)
            e2 = W.guarded(export_view)
            bump('double_exports')
            d = W.diff(W.norm(e1), W.norm(e2))
            if d:
                fail('two consecutive exports are not identical networks', 'double-export',
                     f'{d[0]}: {str(d[1])[:100]} vs {str(d[2])[:100]}', 'export')
    return {'failures': failures, 'events': events, 'stats': stats, 'steps': steps,
            'nontrivial': nontrivial, 'shape': shape_of(case), 'sim_time': steps}
