"""Determinism self-test (DESIGN.md §3.3): every run index is executed several times - in different
worker processes, with 16 workers and with 1 worker, and in a fresh interpreter under another
PYTHONHASHSEED - and the event-log digests are compared. Any divergence is a harness error (exit 2)."""
import json
import os
import subprocess
import sys
import time

PROPS = ['C10', 'C11', 'C15', 'C17', 'C18', 'C19']


def digests(pid, seed, runs, workers, tier, roundtrip=False):
    from sim import core
    out = {}
    fn = core._worker_run_roundtrip if roundtrip else core._worker_run
    with core.make_pool(workers) as pool:
        futs = {pool.submit(fn, (pid, seed, r, tier, False)): r for r in runs}
        for f, r in futs.items():
            res = f.result(timeout=core.RUN_TIMEOUT_S * 4)
            out[r] = res['digest'] if not res['harness_error'] else 'HARNESS:' + res['harness_error'][-200:]
    return out


def run_indices(k):
    """half of the indices from the start of the batch (where C11 / C15 enumerate systematically), half from beyond the
    systematic parts (seeded histories with faults)"""
    h = k // 2
    return list(range(h)) + list(range(5000, 5000 + k - h))


def main(a):
    from sim import core
    core.setup_process()
    if os.environ.get('SELFTEST_CHILD'):
        pid, k = os.environ['SELFTEST_CHILD'].split(':')
        d = digests(pid, a.seed, run_indices(int(k)), min(a.workers, 16), 'quick')
        print('DIGESTS ' + json.dumps(d))
        return 0
    k = a.runs or (12 if a.tier == 'quick' else 120)
    props = PROPS
    bad = 0
    t0 = time.time()
    for pid in props:
        runs = run_indices(k)
        d16 = digests(pid, a.seed, runs, min(a.workers, 16), 'quick')
        d16b = digests(pid, a.seed, list(reversed(runs)), min(a.workers, 16), 'quick', roundtrip=True)
        d1 = digests(pid, a.seed, runs[::4][:max(4, k // 4)], 1, 'quick')
        env = dict(os.environ, VERIF_HASHSEED='1', SELFTEST_CHILD=f'{pid}:{k}')
        env.pop('PYTHONHASHSEED', None)
        cp = subprocess.run([sys.executable, os.path.join(core.VERIF, 'sim', 'cli.py'), 'selftest', '--seed', str(a.seed),
                             '--workers', str(a.workers)], env=env, capture_output=True, text=True, timeout=3600)
        line = next((l for l in cp.stdout.splitlines() if l.startswith('DIGESTS ')), None)
        dh = {int(kk): v for kk, v in json.loads(line[8:]).items()} if line else {}
        n_bad = 0
        for r in runs:
            vals = {d16.get(r), d16b.get(r), dh.get(r)} | ({d1[r]} if r in d1 else set())
            if len(vals) != 1 or any(v is None or str(v).startswith('HARNESS') for v in vals):
                n_bad += 1
                print(f'NONDETERMINISM {pid} run {r}: {sorted(map(str, vals))}')
        print(f'[selftest] {pid}: {k} runs x (16 workers, 16 workers reversed order after a sorted-key JSON round trip of the case, 1 worker on {len(d1)}, '
              f'fresh interpreter PYTHONHASHSEED=1): {"OK" if not n_bad else str(n_bad) + " DIVERGED"}', flush=True)
        bad += n_bad
    print(f'[selftest] wall={time.time() - t0:.1f}s')
    if bad:
        print('HARNESS-ERROR determinism self-test failed')
        return 2
    return 0
