"""Seeded generation of configurations and base schedules (shared by C10, C11, C17, C18)."""
from sim import arch
from sim.prng import Stream

PIT_FLAGS = ['train_features', 'train_rf', 'train_dilation', 'discrete_cost']


def gen_cfg(sw: Stream, ra: Stream, methods=('pit', 'mps', 'sn'), weights=(4, 4, 3)):
    method = sw.wchoice(list(zip(methods, weights)))
    cfg = {'method': method, 'batch': sw.randint(2, 4)}
    ctor = {}
    if method == 'pit':
        cfg['spec'] = arch.gen_pit(ra)
        if sw.chance(0.3):
            ctor['fold_bn'] = True
        if sw.chance(0.3):
            ctor['discrete_cost'] = True
        if sw.chance(0.25):
            ctor['full_cost'] = True
        for f in ('train_features', 'train_rf', 'train_dilation'):
            if sw.chance(0.15):
                ctor[f] = False
        cfg['cost'] = sw.choice(['single:params', 'single:ops', 'dict:params+ops', 'single:params_no_bias',
                                 'dict:params+ops_no_bias', 'single:gap8_latency', 'dict:params+gap8_latency'])
    elif method == 'mps':
        cfg['spec'] = arch.gen_mps(ra)
        if sw.chance(0.5):
            ctor['w_search'] = 'channel'
            ctor['w_prec'] = list(sw.choice([(0, 2, 4, 8), (2, 4, 8), (0, 4, 8), (4, 8), (0, 8),
                                             (0, 2, 3, 4, 5, 6, 7, 8), (8, 0, 4)]))
        else:
            ctor['w_prec'] = list(sw.choice([(2, 4, 8), (4, 8), (8,), (2, 8), (8, 4, 2), (2, 3, 4, 5, 6, 7, 8),
                                             (3, 5, 7)]))
        ctor['a_prec'] = list(sw.choice([(2, 4, 8), (8,), (4, 8), (8, 2), (2, 3, 4, 5, 6, 7, 8), (7, 5)]))
        if sw.chance(0.4):
            ctor['temperature'] = sw.choice([0.5, 2.0, 5.0, 1, 2])
        if sw.chance(0.3):
            ctor['gumbel_softmax'] = True
        if sw.chance(0.3):
            ctor['hard_softmax'] = True
        if sw.chance(0.12):
            ctor['disable_sampling'] = True
        if sw.chance(0.2):
            ctor['full_cost'] = True
        if sw.chance(0.15):
            ctor['disable_shared_quantizers'] = True
        cfg['cost'] = sw.choice(['single:params_bit', 'dict:params_bit+ops_bit', 'single:ops_bit',
                                 'single:params_bit', 'dict:params_bit+ops_bit', 'single:ops_bit',
                                 'single:mpic_latency', 'dict:params_bit+mpic_energy'])
        if 'mpic' in cfg['cost'] and not mpic_ok(ctor):
            # (the MPIC look-up tables are defined for activation precisions {2,4,8} and weight precisions {0,2,4,8})
            cfg['cost'] = cfg['cost'].replace('mpic_latency', 'ops_bit').replace('mpic_energy', 'ops_bit')
        if sw.chance(0.25):
            ctor['qinfo'] = sw.choice(['asym', 'initclip', 'signed', 'override'])
    else:
        cfg['spec'] = arch.gen_supernet(ra, max_branches=sw.choice([3, 4, 4, 8]))
        if sw.chance(0.3):
            ctor['full_cost'] = True
        cfg['cost'] = sw.choice(['single:params', 'single:ops', 'dict:params+ops'])
    if sw.chance(0.15):
        cfg['seed_in_eval'] = True
    if sw.chance(0.15):
        ctor['input_example'] = True          # wrapper built from an input example instead of an input shape
    if not cfg['spec']['feats'].get('has_bn') and sw.chance(0.15):
        cfg['batch'] = 1
    if method in ('pit', 'mps') and sw.chance(0.15):
        # one searchable layer is excluded from the search by name (stays a fixed layer)
        cand = [n for n, d in cfg['spec']['mods'].items()
                if d['t'].startswith('conv') and not n.startswith('dw')]
        if cand:
            ctor['exclude_names'] = sw.sample(cand, 1 if sw.chance(0.6) else min(2, len(cand)))
    elif method in ('pit', 'mps') and sw.chance(0.07):
        # a whole layer type is excluded from the search
        ctor['exclude_types'] = [sw.choice(['conv', 'conv', 'linear'])]
    cfg['ctor'] = ctor
    return cfg


def mpic_ok(ctor):
    return set(ctor.get('a_prec', (2, 4, 8))) <= {2, 4, 8} and set(ctor.get('w_prec', (2, 4, 8))) <= {0, 2, 4, 8}


def other_cost(cfg, rs):
    if cfg['method'] == 'mps':
        pool = ['single:params_bit', 'dict:params_bit+ops_bit', 'single:ops_bit',
                'dict:params_bit=ops_bit+ops_bit=params_bit']
        if mpic_ok(cfg.get('ctor', {})):
            pool += ['single:mpic_latency', 'dict:mpic_energy+mpic_latency']
    else:
        pool = ['single:params', 'single:ops', 'dict:params+ops', 'single:ops_no_bias',
                'dict:params=params_no_bias+ops', 'dict:params+ops=ops_no_bias']
        if cfg['method'] == 'pit':
            pool += ['single:gap8_latency', 'dict:ops+gap8_latency']
    pool = [p for p in pool if p != cfg['cost']]
    return rs.choice(pool)


def n_leaf_calls(cfg):
    """number of leaf-module calls of one forward pass (choice blocks explode into their branches + combiner)"""
    n = 0
    mods = cfg['spec']['mods']
    for i in cfg['spec']['prog']:
        if i['op'] == 'call':
            d = mods[i['m']]
            n += (sum(len(b) for b in d['branches']) + 1) if d['t'] == 'sn' else 1
        elif i['op'] == 'add' and cfg['method'] == 'mps':
            n += 1
    return max(2, n + (1 if cfg['method'] == 'mps' else 0))


def gen_softmax_kw(cfg, rs, allow_temperature=True):
    kw = {}
    if cfg['method'] == 'mps':
        opts = ['temperature', 'hard', 'gumbel', 'disable_sampling']
    else:
        opts = ['temperature', 'hard']
    if not allow_temperature:
        opts.remove('temperature')
    n = 1 if rs.chance(0.65) else rs.randint(2, len(opts))
    for o in rs.sample(opts, n):
        if o == 'temperature':
            kw[o] = rs.choice([0.05, 20.0]) if rs.chance(0.2) else \
                (rs.choice([1, 2, 5, 10, 20]) if rs.chance(0.15) else round(rs.loguniform(0.05, 20.0), 4))
        else:
            kw[o] = rs.chance(0.5)
    return kw


def gen_base_op(cfg, rs, enabled, swarm):
    """one base op (executed by both replicas)"""
    method = cfg['method']
    kinds = [(k, w) for k, w in enabled.items() if w > 0]
    k = rs.wchoice(kinds)
    if k in ('train_step', 'backward_only'):
        op = {'op': k, 'which': rs.choice(['net', 'nas', 'both', 'both']),
              'lam': rs.choice([0.0, 1e-4, 1e-3, 1e-2]), 'lr': rs.choice([0.01, 0.05, 0.2]),
              'cost': rs.chance(0.8)}
        if swarm.get('aborts') and rs.chance(0.25):
            op['abort'] = rs.randint(1, n_leaf_calls(cfg))
        return op
    if k == 'opt_step':
        return {'op': 'opt_step', 'which': rs.choice(['net', 'nas', 'both']), 'lr': rs.choice([0.01, 0.05])}
    if k == 'forward_only':
        op = {'op': 'forward_only', 'no_grad': rs.chance(0.7)}
        if swarm.get('aborts') and rs.chance(0.15):
            op['abort'] = rs.randint(1, n_leaf_calls(cfg))
        return op
    if k == 'perturb_arch':
        styles = ['binary', 'binary', 'real', 'extreme', 'threshold', 'allzero', 'permute', 'permute'] if method == 'pit' else \
            ['gap', 'gap', 'real', 'gap_large']
        return {'op': 'perturb_arch', 'style': rs.choice(styles)}
    if k == 'perturb_net':
        return {'op': 'perturb_net', 'style': rs.choice(['zero_channel', 'tiny_clip', 'bn_var_zero', 'big_weights'])}
    if k == 'set_mode':
        return {'op': 'set_mode', 'mode': rs.choice(['train', 'eval'])}
    if k == 'train_group':
        return {'op': rs.choice(['train_nas_only', 'train_net_only', 'train_net_and_nas'])}
    if k == 'set_flag':
        if method != 'pit':
            return {'op': 'set_mode', 'mode': rs.choice(['train', 'eval'])}
        return {'op': 'set_flag', 'flag': rs.choice(PIT_FLAGS), 'value': rs.chance(0.5)}
    if k == 'softmax_opts':
        if method == 'pit':
            return {'op': 'set_flag', 'flag': rs.choice(PIT_FLAGS), 'value': rs.chance(0.5)}
        return {'op': 'softmax_opts', 'kw': gen_softmax_kw(cfg, rs)}
    if k == 'set_cost_spec':
        return {'op': 'set_cost_spec', 'name': other_cost(cfg, rs)}
    if k == 'observer':
        # an observer call as an ordinary step of the script (executed by both replicas)
        return gen_observer(cfg, rs, {'export': 4, 'export_nobn': 1, 'summary': 3, 'str': 1, 'cost': 2, 'get_cost': 1,
                                      'switch_spec_and_back': 1, 'nas_summary': 1})
    if k == 'train_burst':
        return {'op': 'train_burst', 'n': rs.randint(6, 12), 'which': rs.choice(['net', 'both', 'both']),
                'lam': rs.choice([0.0, 1e-3]), 'lr': rs.choice([0.01, 0.05])}
    if k == 'ckpt':
        o = rs.choice(['save_ckpt', 'load_ckpt', 'load_ckpt', 'deepcopy_model'])
        if o == 'load_ckpt' and rs.chance(0.3):
            return {'op': 'load_ckpt', 'assign': True}
        return {'op': o}
    if k == 'read_cost':
        return {'op': 'read_cost'}
    if k == 'read_summary':
        return {'op': 'read_summary'}
    raise ValueError(k)


def gen_observer(cfg, rs, enabled):
    k = rs.wchoice([(k, w) for k, w in enabled.items() if w > 0])
    if k == 'export_nobn' and cfg['method'] != 'pit':
        k = 'export'
    op = {'op': k}
    if rs.chance(0.3):
        # the observer is called inside torch.no_grad() / torch.inference_mode() (only honoured for injected calls)
        op['no_grad'] = rs.choice([True, 'inference'])
    if k == 'get_cost':
        op['i'] = rs.randint(0, 1)
    if k == 'switch_spec_and_back':
        op['name'] = other_cost(cfg, rs)
    return op


def add_mode_scopes(cfg, ops, rm):
    """some whole-model mode switches become switches of a part of the model, and one such switch may be added:
    the model is then in a mixed training status (frozen BatchNorm statistics, one frozen layer). Drawn from a
    stream of its own, so the rest of the generated case does not depend on it."""
    if not rm.chance(0.3):
        return ops

    def scope():
        return rm.choice(['bn', 'bn', 'leaf:%d' % rm.randint(0, 40), 'leaf:%d' % rm.randint(0, 40), 'seed'])
    out = []
    for o in ops:
        if o['op'] == 'set_mode' and rm.chance(0.5):
            o = dict(o, scope=scope())
        out.append(o)
    if rm.chance(0.6):
        out.insert(rm.randint(0, len(out)), {'op': 'set_mode', 'mode': rm.choice(['eval', 'eval', 'train']),
                                             'scope': scope()})
    return out


BYSTANDER_WEIGHTS = {'train_step': 4, 'forward_only': 2, 'perturb_arch': 1.5, 'set_mode': 1.5, 'train_group': 1,
                     'set_flag': 0.7, 'softmax_opts': 1.5, 'observer': 3, 'read_cost': 1, 'read_summary': 0.5}


def gen_bystander(cfg, rb: Stream, tag):
    """another search of the same process (see world.run_bystander): its own small architecture - of the same method
    as the model under test in 70 % of the draws -, its own constructor options, 2-6 ops. Everything is stored in the
    op, so that a replay needs no PRNG."""
    method = cfg['method'] if rb.chance(0.7) else rb.choice(['pit', 'mps', 'sn'])
    bcfg = gen_cfg(rb, rb, methods=(method,), weights=(1,))
    ops = [gen_base_op(bcfg, rb, BYSTANDER_WEIGHTS, {}) for _ in range(rb.randint(2, 6))]
    return {'op': 'bystander', 'cfg': bcfg, 'ops': ops, 'seed': rb.randint(0, 2 ** 31), 'idx': tag, 'inject': True}


def add_bystanders(cfg, ops, rb: Stream, p=0.2):
    """in a fraction of the runs one or two other searches of the same process are built and run (on the subject
    replica only) at seeded points of the history. Drawn from a stream of its own."""
    if not rb.chance(p):
        return ops
    out = list(ops)
    for t in range(rb.randint(1, 2)):
        out.insert(rb.randint(0, len(out)), gen_bystander(cfg, rb, t))
    return out
