"""Architecture grammar: seed networks as JSON specs interpreted by one generic nn.Module.

A spec is {'dim', 'in_shape', 'mods': {name: moddef}, 'prog': [instr], 'out': reg, 'n_out'}.
`SpecNet.forward` is a Python loop over `prog`; torch.fx unrolls it (all three plinio tracers
treat SpecNet as a non-leaf because its __module__ does not start with 'torch.nn').
Everything is tiny (<= 8 channels, <= 12 time steps / 6x6 pixels) so that one construction costs
tens of milliseconds.
"""
import operator
import torch
import torch.nn as nn
import torch.nn.functional as F


def build_module(d):
    t = d['t']
    if t == 'conv1d':
        return nn.Conv1d(d['cin'], d['cout'], d['k'], stride=d.get('s', 1), padding=d.get('p', 0),
                         dilation=d.get('d', 1), groups=d.get('g', 1), bias=d.get('b', True))
    if t == 'conv2d':
        return nn.Conv2d(d['cin'], d['cout'], d['k'], stride=d.get('s', 1), padding=d.get('p', 0),
                         dilation=d.get('d', 1), groups=d.get('g', 1), bias=d.get('b', True))
    if t == 'pad1d':
        return nn.ConstantPad1d((d['left'], 0), 0.0)
    if t == 'bn1d':
        return nn.BatchNorm1d(d['c'])
    if t == 'bn2d':
        return nn.BatchNorm2d(d['c'])
    if t == 'linear':
        return nn.Linear(d['cin'], d['cout'], bias=d.get('b', True))
    if t == 'relu':
        return nn.ReLU()
    if t == 'avgpool1d':
        return nn.AvgPool1d(d['k'])
    if t == 'avgpool2d':
        return nn.AvgPool2d(d['k'])
    if t == 'maxpool1d':
        return nn.MaxPool1d(d['k'])
    if t == 'maxpool2d':
        return nn.MaxPool2d(d['k'])
    if t == 'gap1d':
        return nn.AdaptiveAvgPool1d(1)
    if t == 'gap2d':
        return nn.AdaptiveAvgPool2d(1)
    if t == 'dropout':
        return nn.Dropout(d.get('p', 0.25))
    if t == 'identity':
        return nn.Identity()
    if t == 'flatten':
        return nn.Flatten(1)
    if t == 'sn':
        from plinio.methods.supernet import SuperNetModule
        branches = []
        for br in d['branches']:
            mods = [build_module(m) for m in br]
            branches.append(mods[0] if len(mods) == 1 else nn.Sequential(*mods))
        return SuperNetModule(branches, gumbel_softmax=d.get('gumbel', False),
                              hard_softmax=d.get('hard', False))
    raise ValueError(t)


class SpecNet(nn.Module):
    def __init__(self, spec):
        super().__init__()
        self.spec = spec
        # canonical construction order (first use in the program), independent of the key order of the JSON
        # document: module creation consumes the torch RNG, so the order decides the initial weights
        order = []
        for ins in spec['prog']:
            if ins['op'] == 'call' and ins['m'] not in order:
                order.append(ins['m'])
        order += sorted(n for n in spec['mods'] if n not in order)
        for name in order:
            self.add_module(name, build_module(spec['mods'][name]))

    def forward(self, x):
        return self._run({0: x})

    def _run(self, regs):
        for ins in self.spec['prog']:
            op = ins['op']
            if op == 'call':
                regs[ins['dst']] = getattr(self, ins['m'])(regs[ins['src']])
            elif op == 'frelu':
                regs[ins['dst']] = F.relu(regs[ins['src']])
            elif op == 'trelu':
                regs[ins['dst']] = torch.relu(regs[ins['src']])
            elif op == 'add':
                if ins.get('fn') == 'torch':
                    regs[ins['dst']] = torch.add(regs[ins['a']], regs[ins['b']])
                else:
                    regs[ins['dst']] = regs[ins['a']] + regs[ins['b']]
            elif op == 'cat':
                regs[ins['dst']] = torch.cat([regs[r] for r in ins['srcs']], dim=1)
            elif op == 'flatten':
                if ins.get('how') == 'torch':
                    regs[ins['dst']] = torch.flatten(regs[ins['src']], 1)
                else:
                    regs[ins['dst']] = regs[ins['src']].flatten(1)
            else:
                raise ValueError(op)
        return regs[self.spec['out']]


class SpecNet2(SpecNet):
    """two-input variant: the second network input lives in register -1"""
    def forward(self, x, z):
        return self._run({0: x, -1: z})


def make_net(spec):
    return SpecNet2(spec) if spec.get('n_inputs', 1) == 2 else SpecNet(spec)


# ----------------------------------------------------------------------------------------------
# generation
# ----------------------------------------------------------------------------------------------
class _B:
    """builder keeping track of registers, channels and spatial size"""
    def __init__(self, dim, cin, size):
        self.dim = dim
        self.mods = {}
        self.prog = []
        self.reg = 0
        self.nreg = 0
        self.c = cin
        self.size = size
        self.n = 0
        self.feat = {}     # features reported to the reference models

    def name(self, p):
        self.n += 1
        return f'{p}{self.n}'

    def new_reg(self):
        self.nreg += 1
        return self.nreg

    def call(self, name, d, src=None):
        self.mods[name] = d
        dst = self.new_reg()
        self.prog.append({'op': 'call', 'm': name, 'src': self.reg if src is None else src, 'dst': dst})
        self.reg = dst
        return dst

    def recall(self, name):
        dst = self.new_reg()
        self.prog.append({'op': 'call', 'm': name, 'src': self.reg, 'dst': dst})
        self.reg = dst

    def relu(self, rs):
        k = rs.randint(0, 2)
        if k == 0:
            self.call(self.name('relu'), {'t': 'relu'})
        else:
            dst = self.new_reg()
            self.prog.append({'op': 'frelu' if k == 1 else 'trelu', 'src': self.reg, 'dst': dst})
            self.reg = dst

    def add(self, a, b, rs):
        dst = self.new_reg()
        self.prog.append({'op': 'add', 'a': a, 'b': b, 'dst': dst, 'fn': rs.choice(['operator', 'torch'])})
        self.reg = dst

    def cat(self, srcs):
        dst = self.new_reg()
        self.prog.append({'op': 'cat', 'srcs': list(srcs), 'dst': dst})
        self.reg = dst

    def flatten(self, rs):
        k = rs.randint(0, 2)
        if k == 0:
            self.call(self.name('flat'), {'t': 'flatten'})
        else:
            dst = self.new_reg()
            self.prog.append({'op': 'flatten', 'src': self.reg, 'dst': dst, 'how': 'torch' if k == 1 else 'method'})
            self.reg = dst
        self.c = self.c * (self.size ** self.dim)
        self.size = 1


def _conv(b, rs, cout, k, stride=1, dw=False, bias=None, causal=False, dil=1, bn=False, tag='conv'):
    """emit a conv (+ optional BN) keeping the spatial size for stride 1"""
    dim = b.dim
    name = b.name(tag)
    if bias is None:
        bias = rs.chance(0.7)
    g = b.c if dw else 1
    if dw:
        cout = b.c
    if dim == 1 and causal:
        b.call(b.name('pad'), {'t': 'pad1d', 'left': (k - 1) * dil})
        p = 0
    else:
        p = ((k - 1) // 2) * dil
    d = {'t': f'conv{dim}d', 'cin': b.c, 'cout': cout, 'k': k, 's': stride, 'p': p, 'd': dil, 'g': g, 'b': bias}
    b.call(name, d)
    # spatial size
    eff = (k - 1) * dil + 1
    if dim == 1 and causal:
        b.size = (b.size - 1) // stride + 1
    else:
        b.size = (b.size + 2 * p - eff) // stride + 1
    b.c = cout
    if bn:
        b.call(b.name('bn'), {'t': f'bn{dim}d', 'c': cout})
    return name


def gen_pit(rs, dim=None):
    dim = dim or rs.choice([1, 1, 2])
    cin = rs.randint(1, 3)
    size = rs.choice([8, 10, 12]) if dim == 1 else rs.choice([5, 6])
    b = _B(dim, cin, size)
    feats = {'strided_convs': [], 'has_residual': False, 'input_residual': False, 'has_bn': False, 'reused': False}
    ks1 = [2, 3, 4, 5] if dim == 1 else [1, 3]
    # optional residual with the *input* (width group reaching a network input => frozen)
    if rs.chance(0.25):
        x0 = b.reg
        _conv(b, rs, cin, rs.choice([3, 5] if dim == 1 else [3]), causal=(dim == 1 and rs.chance(0.6)), bn=rs.chance(0.5))
        b.add(b.reg, x0, rs)
        feats['input_residual'] = True
    c1 = rs.randint(2, 6)
    bn = rs.chance(0.6)
    feats['has_bn'] = feats['has_bn'] or bn
    _conv(b, rs, c1, rs.choice(ks1), causal=(dim == 1 and rs.chance(0.6)), bn=bn,
          dil=(rs.choice([1, 1, 2]) if dim == 1 else 1))
    b.relu(rs)
    n_inputs = 1
    if rs.chance(0.1) and b.size == size and not feats['input_residual']:
        # a second network input goes through its own convolution and joins by an add
        n_inputs = 2
        main, c_main, size_main = b.reg, b.c, b.size
        b.reg, b.c, b.size = -1, cin, size
        _conv(b, rs, c1, 3, bn=False, tag='zconv')
        b.add(b.reg, main, rs)
        b.c, b.size = c_main, size_main
        feats['two_inputs'] = True
    # residual block
    if rs.chance(0.6):
        skip = b.reg
        bn = rs.chance(0.5)
        feats['has_bn'] = feats['has_bn'] or bn
        causal = (dim == 1 and rs.chance(0.6))
        nm = _conv(b, rs, c1, rs.choice([3, 5] if dim == 1 else [3]), causal=causal, bn=bn)
        b.relu(rs)
        if rs.chance(0.25) and not bn and not causal:
            # the same layer used twice in one forward pass
            b.recall(nm)
            feats['reused'] = True
        b.add(b.reg, skip, rs)
        feats['has_residual'] = True
    if rs.chance(0.2):
        # two parallel branches whose outputs are concatenated along the channel axis
        src, c_in, size_in = b.reg, b.c, b.size
        ca, cb = rs.randint(2, 4), rs.randint(2, 4)
        _conv(b, rs, ca, 3, bn=rs.chance(0.3))
        ra = b.reg
        b.reg, b.c, b.size = src, c_in, size_in
        _conv(b, rs, cb, 3 if dim == 2 else rs.choice([3, 5]), bn=False)
        rb = b.reg
        b.cat([ra, rb])
        b.c = ca + cb
        b.relu(rs)
        feats['has_concat'] = True
    if rs.chance(0.35) and not feats.get('has_concat'):
        # (a depthwise convolution fed by a channel concatenation gets no feature masker in PIT: not generated)
        _conv(b, rs, None, 3, dw=True, causal=(dim == 1 and rs.chance(0.5)), tag='dw')
        b.relu(rs)
    # strided convolution: PIT freezes receptive-field and dilation masks of strided 1D convs
    if rs.chance(0.75 if dim == 1 else 0.4) and b.size >= 4:
        bn = rs.chance(0.4)
        feats['has_bn'] = feats['has_bn'] or bn
        nm = _conv(b, rs, rs.randint(2, 6), rs.choice([2, 3, 5] if dim == 1 else [3]), stride=2, bn=bn, tag='sconv')
        feats['strided_convs'].append(nm)
        b.relu(rs)
    if rs.chance(0.3):
        b.call(b.name('drop'), {'t': 'dropout', 'p': 0.25})
    # head
    if rs.chance(0.5):
        b.call(b.name('gap'), {'t': f'gap{dim}d'})
        b.size = 1
    elif b.size >= 4 and rs.chance(0.5):
        b.call(b.name('pool'), {'t': rs.choice(['avgpool', 'maxpool']) + f'{dim}d', 'k': 2})
        b.size = b.size // 2
    b.flatten(rs)
    n_out = rs.randint(2, 4)
    if rs.chance(0.4):
        h = rs.randint(3, 6)
        bn = rs.chance(0.5)
        b.call(b.name('fc'), {'t': 'linear', 'cin': b.c, 'cout': h, 'b': rs.chance(0.8)})
        b.c = h
        if bn:
            b.call(b.name('bn'), {'t': 'bn1d', 'c': h})
            feats['has_bn'] = True
        b.relu(rs)
    if rs.chance(0.12):
        # the layer that produces the network output is also used at an earlier, internal call site
        n_out = b.c if b.c <= 6 else n_out
        if n_out != b.c:
            b.call(b.name('fc'), {'t': 'linear', 'cin': b.c, 'cout': n_out, 'b': True})
            b.c = n_out
            b.relu(rs)
        nm = b.name('out')
        b.call(nm, {'t': 'linear', 'cin': n_out, 'cout': n_out, 'b': rs.chance(0.8)})
        b.relu(rs)
        b.recall(nm)
        feats['reused'] = True
        feats['reused_output_layer'] = True
    else:
        b.call(b.name('out'), {'t': 'linear', 'cin': b.c, 'cout': n_out, 'b': rs.chance(0.8)})
    in_shape = [cin] + [size] * dim
    return {'dim': dim, 'in_shape': in_shape, 'mods': b.mods, 'prog': b.prog, 'out': b.reg, 'n_out': n_out,
            'feats': feats, 'n_inputs': n_inputs}


def gen_mps(rs, max_c=5):
    dim = 2 if rs.chance(0.75) else 1
    cin = rs.randint(1, 3)
    size = rs.choice([5, 6]) if dim == 2 else rs.choice([8, 10])
    b = _B(dim, cin, size)
    feats = {'has_residual': False, 'has_bn': False, 'reused': False}
    c1 = rs.randint(2, max_c)
    bn = rs.chance(0.5)
    feats['has_bn'] |= bn
    _conv(b, rs, c1, rs.choice([1, 3]), bn=bn)
    b.relu(rs)
    n_inputs = 1
    if rs.chance(0.1):
        # a second network input goes through its own convolution and joins by an add
        n_inputs = 2
        main, c_main, size_main = b.reg, b.c, b.size
        b.reg, b.c, b.size = -1, cin, size
        _conv(b, rs, c1, 3, bn=False, tag='zconv')
        b.relu(rs)
        b.add(b.reg, main, rs)
        b.c, b.size = c_main, size_main
        feats['two_inputs'] = True
    if rs.chance(0.6):
        skip = b.reg
        bn = rs.chance(0.5)
        feats['has_bn'] |= bn
        _conv(b, rs, c1, 3, bn=bn)
        b.relu(rs)
        b.add(b.reg, skip, rs)
        feats['has_residual'] = True
    if rs.chance(0.3):
        _conv(b, rs, None, 3, dw=True, tag='dw')
        b.relu(rs)
    if rs.chance(0.4) and b.size >= 4:
        _conv(b, rs, rs.randint(2, 5), 3, stride=2, bn=rs.chance(0.4), tag='sconv')
        b.relu(rs)
    if rs.chance(0.5):
        b.call(b.name('gap'), {'t': f'gap{dim}d'})
        b.size = 1
    elif b.size >= 4 and rs.chance(0.5):
        b.call(b.name('pool'), {'t': f'avgpool{dim}d', 'k': 2})
        b.size = b.size // 2
    b.flatten(rs)
    n_out = rs.randint(2, 4)
    if rs.chance(0.4):
        h = rs.randint(3, 6)
        b.call(b.name('fc'), {'t': 'linear', 'cin': b.c, 'cout': h, 'b': rs.chance(0.8)})
        b.c = h
        if rs.chance(0.5):
            b.call(b.name('bn'), {'t': 'bn1d', 'c': h})
            feats['has_bn'] = True
        b.relu(rs)
    b.call(b.name('out'), {'t': 'linear', 'cin': b.c, 'cout': n_out, 'b': rs.chance(0.8)})
    return {'dim': dim, 'in_shape': [cin] + [size] * dim, 'mods': b.mods, 'prog': b.prog, 'out': b.reg,
            'n_out': n_out, 'feats': feats, 'n_inputs': n_inputs}


def _sn_branch(rs, dim, c, kind):
    cv = f'conv{dim}d'
    if kind == 'conv3':
        return [{'t': cv, 'cin': c, 'cout': c, 'k': 3, 'p': 1, 'b': rs.chance(0.7)}]
    if kind == 'conv5':
        return [{'t': cv, 'cin': c, 'cout': c, 'k': 5, 'p': 2, 'b': rs.chance(0.7)}]
    if kind == 'conv1':
        return [{'t': cv, 'cin': c, 'cout': c, 'k': 1, 'p': 0, 'b': rs.chance(0.7)}]
    if kind == 'dwsep':
        return [{'t': cv, 'cin': c, 'cout': c, 'k': 3, 'p': 1, 'g': c, 'b': False},
                {'t': f'bn{dim}d', 'c': c}, {'t': 'relu'},
                {'t': cv, 'cin': c, 'cout': c, 'k': 1, 'p': 0, 'b': True}]
    if kind == 'convbn':
        return [{'t': cv, 'cin': c, 'cout': c, 'k': 3, 'p': 1, 'b': False}, {'t': f'bn{dim}d', 'c': c}]
    if kind == 'identity':
        return [{'t': 'identity'}]
    raise ValueError(kind)


def gen_supernet(rs, max_branches=4):
    dim = rs.choice([1, 2])
    cin = rs.randint(1, 3)
    size = rs.choice([8, 10]) if dim == 1 else rs.choice([5, 6])
    b = _B(dim, cin, size)
    feats = {'n_blocks': 0, 'reused': False, 'has_bn': False}
    c1 = rs.randint(2, 5)
    bn = rs.chance(0.5)
    feats['has_bn'] |= bn
    _conv(b, rs, c1, 3, bn=bn)
    b.relu(rs)
    n_blocks = rs.randint(1, 3)
    gumbel = rs.chance(0.4)
    hard = rs.chance(0.3)
    for i in range(n_blocks):
        nb = rs.randint(2, max_branches)
        kinds = rs.sample(['conv3', 'conv5', 'conv1', 'dwsep', 'convbn', 'identity'], min(nb, 6))
        while len(kinds) < nb:
            kinds.append(rs.choice(['conv3', 'conv5', 'conv1']))
        if any(k in ('dwsep', 'convbn') for k in kinds):
            feats['has_bn'] = True
        nm = b.name('sn')
        b.call(nm, {'t': 'sn', 'branches': [_sn_branch(rs, dim, b.c, k) for k in kinds], 'kinds': kinds,
                    'gumbel': gumbel, 'hard': hard})
        feats['n_blocks'] += 1
        b.relu(rs)
        if rs.chance(0.15):
            b.recall(nm)     # the same choice block used twice
            feats['reused'] = True
        if rs.chance(0.3) and i < n_blocks - 1:
            c2 = rs.randint(2, 5)
            _conv(b, rs, c2, 3, bn=rs.chance(0.3))
            b.relu(rs)
    if rs.chance(0.5):
        b.call(b.name('gap'), {'t': f'gap{dim}d'})
        b.size = 1
    b.flatten(rs)
    n_out = rs.randint(2, 4)
    b.call(b.name('out'), {'t': 'linear', 'cin': b.c, 'cout': n_out, 'b': True})
    in_shape = [cin] + [size] * dim
    feats['gumbel'] = gumbel
    feats['hard'] = hard
    return {'dim': dim, 'in_shape': in_shape, 'mods': b.mods, 'prog': b.prog, 'out': b.reg, 'n_out': n_out,
            'feats': feats}
