"""The simulated world: replicas of the real plinio wrappers, the op vocabulary of the simulated
training loop, crash/restart, pure-torch reads, probes and tolerant comparison.
"""
import hashlib
import io
import math
import torch
import torch.nn as nn
from sim.prng import torch_seed
from sim import arch

RTOL, ATOL = 1e-5, 1e-6


class SimAbort(Exception):
    """raised by the injected forward pre-hook: the forward pass dies in front of a layer"""


# ----------------------------------------------------------------------------------------------
# construction
# ----------------------------------------------------------------------------------------------
def cost_spec(method, name):
    import plinio.cost as C
    table = {
        'params': C.params, 'ops': C.ops, 'params_no_bias': C.params_no_bias, 'ops_no_bias': C.ops_no_bias,
        'params_bit': C.params_bit, 'ops_bit': C.ops_bit,
        # hardware cost models (look-up tables and roofline-style formulas): gap8 for PIT, mpic for MPS
        'gap8_latency': C.gap8_latency, 'mpic_latency': C.mpic_latency, 'mpic_energy': C.mpic_energy,
    }
    kind, _, names = name.partition(':')
    names = names.split('+')
    if kind == 'single':
        return table[names[0]]
    # 'key=spec' maps the metric name `key` to another built-in specification
    return {n.split('=')[0]: table[n.split('=')[-1]] for n in names}


def user_spec(rep, name):
    """the user's own specification objects: the SAME object is handed to the model every time the script uses that
    specification (a user keeps `specs_a` and `specs_b` around and switches between them)"""
    cache = rep.__dict__.setdefault('spec_objs', {})
    if name not in cache:
        cache[name] = cost_spec(rep.cfg['method'], name)
    return cache[name]


class _NxShim:
    """seam for the address-dependent iteration order of the node sets returned by
    networkx.weakly_connected_components (used by build_shared_features_map /
    build_shared_mps_qtz_map): components and their members are yielded in a seeded order"""
    def __init__(self, real, seed):
        self._real = real
        self._seed = seed

    def __getattr__(self, name):
        return getattr(self._real, name)

    def weakly_connected_components(self, g):
        from sim.prng import Stream
        rs = Stream(self._seed, 'components')
        comps = [sorted(c, key=lambda n: n.name) for c in self._real.weakly_connected_components(g)]
        comps.sort(key=lambda c: c[0].name)
        rs.shuffle(comps)
        for c in comps:
            rs.shuffle(c)
            yield c


class component_order:
    """context manager: plinio's graph modules see the shimmed networkx while a wrapper is built"""
    def __init__(self, seed):
        self.seed = seed

    def __enter__(self):
        import plinio.methods.pit.graph as pg
        import plinio.methods.mps.graph as mg
        self.mods = [pg, mg]
        self.saved = [m.nx for m in self.mods]
        for m in self.mods:
            m.nx = _NxShim(m.nx if not isinstance(m.nx, _NxShim) else m.nx._real, self.seed)

    def __exit__(self, *a):
        for m, sv in zip(self.mods, self.saved):
            m.nx = sv


def build_model(cfg, build_seed, spec_obj=None):
    """a fresh wrapper of the seed network described by cfg, under process-level randomness
    `build_seed` (random weights, random input example, iteration order of graph components)"""
    with component_order(build_seed):
        return _build_model(cfg, build_seed, spec_obj)


def _build_model(cfg, build_seed, spec_obj=None):
    from plinio.methods import PIT, MPS, SuperNet
    torch.manual_seed(build_seed)
    spec = cfg['spec']
    net = arch.make_net(spec)
    if cfg.get('seed_in_eval'):
        net.eval()
    shape = tuple(spec['in_shape'])
    ctor = dict(cfg.get('ctor', {}))
    cs = spec_obj if spec_obj is not None else cost_spec(cfg['method'], cfg['cost'])
    use_example = ctor.pop('input_example', False)
    if 'exclude_types' in ctor:
        tmap = {'conv': (nn.Conv1d, nn.Conv2d), 'linear': (nn.Linear,)}
        ctor['exclude_types'] = tuple(t for k in ctor['exclude_types'] for t in tmap[k])
    if spec.get('n_inputs', 1) == 2:
        kw = {'input_example': (torch.rand((1,) + shape), torch.rand((1,) + shape))}
    else:
        kw = {'input_example': torch.rand((1,) + shape)} if use_example else {'input_shape': shape}
    if cfg['method'] == 'pit':
        return PIT(net, cost=cs, **kw, **ctor)
    if cfg['method'] == 'mps':
        from plinio.methods.mps import MPSType, get_default_qinfo
        w_search = ctor.pop('w_search', 'layer')
        w_prec = tuple(ctor.pop('w_prec', (2, 4, 8)))
        a_prec = tuple(ctor.pop('a_prec', (2, 4, 8)))
        qinfo = get_default_qinfo(w_precision=w_prec, a_precision=a_prec)
        variant = ctor.pop('qinfo', None)
        if variant == 'asym':
            # asymmetric min-max weight quantizers everywhere
            qinfo['layer_default']['weight']['kwargs'] = {'symmetric': False}
        elif variant == 'initclip':
            qinfo['layer_default']['output']['kwargs'] = {'init_clip_val': 3.0}
            qinfo['input_default']['kwargs'] = {'init_clip_val': 2.0}
        elif variant == 'signed':
            from plinio.methods.mps.quant.quantizers import PACTActSigned
            qinfo['layer_default']['output']['quantizer'] = PACTActSigned
            qinfo['input_default']['quantizer'] = PACTActSigned
            qinfo['input_default']['kwargs'] = {}
        elif variant == 'override':
            # quantization information given for one layer by name: other candidate precisions, asymmetric weights
            import copy
            names = [n for n, d in spec['mods'].items() if d['t'].startswith('conv') or d['t'] == 'linear']
            if names:
                q1 = copy.deepcopy(qinfo['layer_default'])
                q1['weight']['search_precision'] = tuple(sorted(set(w_prec) | {8}))[-2:]
                q1['weight']['kwargs'] = {'symmetric': False}
                qinfo[sorted(names)[0]] = q1
        return MPS(net, cost=cs, **kw,
                   w_search_type=MPSType.PER_CHANNEL if w_search == 'channel' else MPSType.PER_LAYER,
                   qinfo=qinfo, **ctor)
    if cfg['method'] == 'sn':
        return SuperNet(net, cost=cs, **kw, **ctor)
    raise ValueError(cfg['method'])


class Replica:
    def __init__(self, cfg, build_seed, name):
        self.cfg = cfg
        self.name = name
        self.spec_objs = {}
        self.model = build_model(cfg, build_seed, spec_obj=user_spec(self, cfg['cost']))
        self.config_log = []       # the script's own configuration, re-issued by a restarted script
        self.cost_name = cfg['cost']
        self.make_optimizers()
        self.restarts = 0
        self.ghost = None

    def make_optimizers(self):
        m = self.model
        net = list(m.net_parameters())
        nas = list(m.nas_parameters())
        self.opt_net = torch.optim.SGD(net, lr=0.05) if net else None
        self.opt_nas = torch.optim.SGD(nas, lr=0.05) if nas else None

    # ---- crash / restart ----------------------------------------------------------------------
    def checkpoint(self) -> bytes:
        buf = io.BytesIO()
        torch.save(self.model.state_dict(), buf)
        return buf.getvalue()

    def crash_restart(self, new_build_seed, stale_example=False, prologue=(), config_after_load=False):
        """durable state = the bytes of state_dict(); everything else of the process is lost.
        `prologue`: what the restarted script does with the fresh wrapper BEFORE it loads the checkpoint (print the
        summary / cost, export the initial architecture, run an inference batch) - calls that do not change a model.
        Returns (load_result, fresh_keys, saved_keys)."""
        data = self.checkpoint()
        self.ghost = self.model
        cfg = self.cfg
        if stale_example:
            cfg = dict(cfg)
            cfg['ctor'] = dict(cfg.get('ctor', {}), input_example=True)
        self.spec_objs = {}             # a new process: new specification objects
        fresh = build_model(cfg, new_build_seed, spec_obj=user_spec(self, self.cfg['cost']))
        fresh_sd = {k: tuple(as_tensor(v).shape) for k, v in fresh.state_dict().items()}
        self.model = fresh
        self.make_optimizers()
        for pop in prologue:
            try:
                if pop['op'] == 'nograd_eval_forward':
                    was = [(m_, m_.training) for m_ in self.model.modules()]
                    self.model.eval()
                    g = torch.Generator()
                    g.manual_seed(4242)
                    shape = (2,) + tuple(self.cfg['spec']['in_shape'])
                    x = torch.rand(shape, generator=g)
                    if self.cfg['spec'].get('n_inputs', 1) == 2:
                        x = (x, torch.rand(shape, generator=g))
                    with torch.no_grad():
                        call_model(self.model, x)
                    for m_, t_ in was:          # the script puts every flag back exactly as it found it
                        m_.training = t_
                else:
                    apply_observer(self, pop)
            except Exception:
                pass
        log, self.config_log = self.config_log, []
        if not config_after_load:
            for op in log:
                apply_config(self, op, replay=True)
        saved = torch.load(io.BytesIO(data), weights_only=True)
        saved_sd = {k: tuple(as_tensor(v).shape) for k, v in saved.items()}
        res = self.model.load_state_dict(saved, strict=False)
        if config_after_load:
            # the other legitimate order of a resume script: construct, load the checkpoint, THEN re-issue the
            # configuration calls (configuration is not state: the order must not matter)
            for op in log:
                apply_config(self, op, replay=True)
        self.restarts += 1
        return res, fresh_sd, saved_sd


# ----------------------------------------------------------------------------------------------
# ops
# ----------------------------------------------------------------------------------------------
CONFIG_OPS = ('set_mode', 'train_nas_only', 'train_net_only', 'train_net_and_nas', 'set_flag',
              'softmax_opts', 'set_cost_spec')
OBSERVER_OPS = ('export', 'export_nobn', 'summary', 'cost', 'get_cost', 'str', 'switch_spec_and_back',
                'named_params', 'state_dict', 'nas_summary', 'export_and_eval', 'bystander')


def data_for(cfg, run_seed, idx):
    g = torch.Generator()
    g.manual_seed(torch_seed(run_seed, 'data', idx))
    b = cfg.get('batch', 3)
    shape = (b,) + tuple(cfg['spec']['in_shape'])
    if cfg['method'] == 'mps':
        x = torch.rand(shape, generator=g)
    else:
        x = torch.randn(shape, generator=g)
    y = torch.randn((b, cfg['spec']['n_out']), generator=g)
    if cfg['spec'].get('n_inputs', 1) == 2:
        z = torch.rand(shape, generator=g) if cfg['method'] == 'mps' else torch.randn(shape, generator=g)
        x = (x, z)
    return x, y


def call_model(m, x):
    """call a model on one input tensor or on a tuple of inputs"""
    return m(*x) if isinstance(x, tuple) else m(x)


def total_cost(model):
    cs = model.cost_specification
    if isinstance(cs, dict):
        tot = None
        for n in cs:
            c = model.get_cost(n)
            tot = c if tot is None else tot + c
        return tot
    return model.cost


def cost_values(model):
    cs = model.cost_specification
    if isinstance(cs, dict):
        return {n: float(model.get_cost(n).detach()) for n in cs}
    return {'cost': float(model.cost.detach())}


def mode_targets(m, scope):
    """the modules a mode switch is applied to: the whole model, or a part of it (the normalisation / dropout
    layers, as for frozen BatchNorm statistics or MC-dropout; one layer of the traced graph, as for a frozen
    layer) - after which the model is in a mixed training status"""
    if not scope:
        return [m]
    if scope == 'bn':
        return [x for x in m.modules() if isinstance(x, (nn.modules.batchnorm._BatchNorm, nn.modules.dropout._DropoutNd))]
    if scope == 'seed':
        # the inner (traced) model is switched directly, not through the wrapper's own train() / eval()
        return [m.seed] if hasattr(m, 'seed') else [m]
    if scope.startswith('leaf:'):
        ll = leaf_layers(m)
        return [ll[int(scope[5:]) % len(ll)]] if ll else []
    raise ValueError(scope)


def apply_config(rep, op, replay=False):
    m = rep.model
    k = op['op']
    if k == 'set_mode':
        for t in mode_targets(m, op.get('scope')):
            t.train() if op['mode'] == 'train' else t.eval()
    elif k == 'train_nas_only':
        m.train_nas_only()
    elif k == 'train_net_only':
        m.train_net_only()
    elif k == 'train_net_and_nas':
        m.train_net_and_nas()
    elif k == 'set_flag':
        setattr(m, op['flag'], op['value'])
    elif k == 'softmax_opts':
        kw = dict(op['kw'])
        if replay and rep.cfg['method'] == 'mps':
            # MPS registers its temperature as a buffer and thereby promises to persist it: the
            # restarted script does not re-issue it (the call itself is kept, see DESIGN C17)
            kw.pop('temperature', None)
        m.update_softmax_options(**kw)
    elif k == 'set_cost_spec':
        m.cost_specification = user_spec(rep, op['name'])
        rep.cost_name = op['name']
    else:
        raise ValueError(k)
    rep.config_log.append(op)
    return None


def _install_abort(model, k):
    """forward pre-hooks on the leaf modules of the traced graph: the k-th leaf call raises"""
    count = [0]
    handles = []

    def hook(mod, inp):
        count[0] += 1
        if count[0] == k:
            raise SimAbort()
    seen = set()
    for layer in leaf_layers(model):
        if id(layer) in seen:
            continue
        seen.add(id(layer))
        handles.append(layer.register_forward_pre_hook(hook))
    return handles, count


def leaf_layers(model):
    """the modules called by the traced graph of the inner model, in graph order (torch.fx API only; no private
    plinio attribute); falls back to all child-less modules"""
    seed = getattr(model, 'seed', None)
    graph = getattr(seed, 'graph', None)
    out = []
    if graph is not None:
        for n in graph.nodes:
            if n.op == 'call_module':
                try:
                    out.append(seed.get_submodule(str(n.target)))
                except AttributeError:
                    pass
    if not out:
        out = [m for m in model.modules() if not list(m.children())]
    return out


def run_forward(rep, x, abort_at=None):
    m = rep.model
    if abort_at is None:
        return call_model(m, x), False
    handles, count = _install_abort(m, abort_at)
    try:
        out = call_model(m, x)
        return out, False
    except SimAbort:
        return None, True
    finally:
        for h in handles:
            h.remove()


def sgd_step(rep, which, lr):
    for name, opt in (('net', rep.opt_net), ('nas', rep.opt_nas)):
        if opt is None or which not in (name, 'both'):
            continue
        for g in opt.param_groups:
            g['lr'] = lr
        opt.step()


def perturb_arch(rep, run_seed, idx, style, write='copy'):
    g = torch.Generator()
    g.manual_seed(torch_seed(run_seed, 'perturb', idx))
    with torch.no_grad():
        for name, p in rep.model.named_nas_parameters():
            if style == 'binary':
                v = (torch.rand(p.shape, generator=g) > 0.4).float()
            elif style == 'real':
                v = torch.rand(p.shape, generator=g) * 3.0 - 1.5
            elif style == 'extreme':
                ch = torch.randint(0, 4, p.shape, generator=g)
                v = torch.tensor([0.0, -2.0, 50.0, 1.0])[ch]
            elif style == 'threshold':
                # mask values on and next to the binarisation threshold 0.5 (and their negatives: PIT takes |.|)
                ch = torch.randint(0, 7, p.shape, generator=g)
                v = torch.tensor([0.5, 0.4999, 0.5001, -0.5, -0.4999, 1.0, 0.0])[ch]
            elif style == 'permute':
                # the same mask values on other positions: as many active channels / taps as before, another set
                v = p.detach().flatten()[torch.randperm(p.numel(), generator=g)].reshape(p.shape).clone()
            elif style == 'allzero':
                v = torch.zeros(p.shape)          # everything pruned down to the keep-alive elements
            elif style == 'gap_large':
                n = p.shape[0]
                cols = int(p.numel() // max(n, 1))
                vals = []
                for _ in range(max(cols, 1)):
                    perm = torch.randperm(n, generator=g).float()
                    base = (float(torch.rand((), generator=g)) * 2 - 1) * 60
                    vals.append(base + perm * (0.05 + float(torch.rand((), generator=g)) * 30))
                v = torch.stack(vals, dim=-1).reshape(p.shape) if p.dim() > 1 else vals[0]
            elif style == 'gap':
                # every decision vector (dim 0) gets pairwise gaps >= 0.05
                n = p.shape[0]
                cols = int(p.numel() // max(n, 1))
                vals = []
                for _ in range(max(cols, 1)):
                    perm = torch.randperm(n, generator=g).float()
                    gap = 0.05 + float(torch.rand((), generator=g)) * 1.5
                    base = float(torch.rand((), generator=g)) * 2 - 1
                    vals.append(base + perm * gap)
                v = torch.stack(vals, dim=-1).reshape(p.shape) if p.dim() > 1 else vals[0]
            else:
                raise ValueError(style)
            if id(p) in getattr(rep, 'perturb_skip', ()):
                continue          # values are still drawn, so the stream stays aligned
            v = v.to(p.dtype)
            if write == 'copy':
                p.copy_(v)                 # what an optimizer does: in-place under no_grad
            elif write == 'data':
                p.data = v                 # what plinio's own optimize_prec_assignment does
            elif write == 'data_copy':
                p.data.copy_(v)            # in-place on .data: invisible to autograd's version counter
            else:
                raise ValueError(write)


def perturb_net(rep, run_seed, idx, style):
    """corner values a search can reach in the network's own parameters / statistics"""
    g = torch.Generator()
    g.manual_seed(torch_seed(run_seed, 'perturb_net', idx))
    nas = {id(p) for p in rep.model.nas_parameters()}
    with torch.no_grad():
        if style == 'zero_channel':
            for n, p in rep.model.named_parameters():
                if id(p) not in nas and n.endswith('weight') and p.dim() >= 2:
                    p[int(torch.randint(0, p.shape[0], (), generator=g))].zero_()
        elif style == 'tiny_clip':
            for n, p in rep.model.named_parameters():
                if 'clip_val' in n:
                    p.fill_(float(torch.tensor([1e-3, 0.05, -0.5, 30.0])[int(torch.randint(0, 4, (), generator=g))]))
        elif style == 'bn_var_zero':
            for n, b in rep.model.named_buffers():
                if n.endswith('running_var'):
                    b[int(torch.randint(0, b.shape[0], (), generator=g))] = 1e-12
        elif style == 'big_weights':
            for n, p in rep.model.named_parameters():
                if id(p) not in nas and n.endswith('weight'):
                    p.mul_(25.0)
        else:
            raise ValueError(style)


def apply_op(rep, op, idx, run_seed, side_hook=None):
    """execute one op on a replica; returns a JSON-able observation (compared between replicas).
    side_hook(point) is called at in-flight points of a step ('mid': between the forward pass and the
    cost read); the twin runner uses it to inject observers on S only."""
    m = rep.model
    k = op['op']
    torch.manual_seed(torch_seed(run_seed, 'op', idx))
    if k in CONFIG_OPS:
        apply_config(rep, op)
        return {'ok': 1}
    if k in ('train_step', 'backward_only'):
        x, y = data_for(rep.cfg, run_seed, idx)
        m.zero_grad(set_to_none=True)
        if side_hook is not None:
            side_hook('pre_forward')
        out, aborted = run_forward(rep, x, op.get('abort'))
        if aborted:
            return {'aborted': 1}
        if side_hook is not None:
            side_hook('mid')
        loss = ((out - y) ** 2).mean()
        if op.get('cost', True):
            loss = loss + op.get('lam', 1e-3) * total_cost(m)
        if side_hook is not None:
            side_hook('pre_backward')
        if loss.requires_grad:
            loss.backward()
            if k == 'train_step':
                sgd_step(rep, op.get('which', 'both'), op.get('lr', 0.05))
        return {'loss': float(loss.detach())}
    if k == 'train_burst':
        # many ordinary training iterations in a row (long-run effects: counters, warm-ups, running statistics)
        last = None
        for j in range(op['n']):
            torch.manual_seed(torch_seed(run_seed, 'op', idx, j))
            x, y = data_for(rep.cfg, run_seed, idx * 1000 + j)
            m.zero_grad(set_to_none=True)
            out = call_model(m, x)
            loss = ((out - y) ** 2).mean() + op.get('lam', 1e-3) * total_cost(m)
            if loss.requires_grad:
                loss.backward()
                sgd_step(rep, op.get('which', 'both'), op.get('lr', 0.05))
            last = float(loss.detach())
        return {'loss': last}
    if k == 'opt_step':
        sgd_step(rep, op.get('which', 'both'), op.get('lr', 0.05))
        return {'ok': 1}
    if k == 'drop_grads':
        m.zero_grad(set_to_none=True)
        return {'ok': 1}
    if k == 'forward_only':
        x, _ = data_for(rep.cfg, run_seed, idx)
        if op.get('no_grad', True):
            with torch.no_grad():
                out, aborted = run_forward(rep, x, op.get('abort'))
        else:
            out, aborted = run_forward(rep, x, op.get('abort'))
        if aborted:
            return {'aborted': 1}
        return {'out': tensor_list(out)}
    if k == 'perturb_arch':
        perturb_arch(rep, run_seed, idx, op['style'], op.get('write', 'copy'))
        return {'ok': 1}
    if k == 'perturb_net':
        perturb_net(rep, run_seed, idx, op['style'])
        return {'ok': 1}
    if k == 'save_ckpt':
        # "keep the best checkpoint": the bytes live on the simulated disk and survive a crash
        rep.saved_ckpt = rep.checkpoint()
        return {'ok': 1}
    if k == 'load_ckpt':
        # "restore the best checkpoint into the live model and go on"
        if getattr(rep, 'saved_ckpt', None) is None:
            return {'ok': 0}
        sd = torch.load(io.BytesIO(rep.saved_ckpt), weights_only=True)
        if op.get('assign'):
            # load_state_dict(assign=True): the checkpoint tensors BECOME the parameters (new objects); the script
            # re-creates its optimizers afterwards, as it must
            rg_before = {n: p.requires_grad for n, p in m.named_parameters()}
            res = m.load_state_dict(sd, strict=False, assign=True)
            for n, p in m.named_parameters():
                if n in rg_before:
                    p.requires_grad_(rg_before[n])      # (assign keeps the requires_grad of the module's parameter)
            rep.make_optimizers()
            rep.objects_replaced = getattr(rep, 'objects_replaced', 0) + 1
        else:
            res = m.load_state_dict(sd, strict=False)
        return {'missing': list(res.missing_keys), 'unexpected': list(res.unexpected_keys)}
    if k == 'deepcopy_model':
        # "keep a copy of the model and go on with the copy" (EMA / best-model bookkeeping)
        import copy
        # (copies are taken at quiet moments - end of an epoch - with no gradients pending; deepcopy does not carry
        # .grad over, so pending gradients are dropped first: the step is then the same whether the copy succeeds or not)
        m.zero_grad(set_to_none=True)
        try:
            rep.model = copy.deepcopy(m)
        except Exception:
            # torch cannot deep-copy a module that holds a tensor with an autograd graph (sampled coefficients,
            # bias scales after a grad-enabled forward - also the one export() runs): the script then simply goes
            # on with the model it has. Whether deepcopy works is not part of any claimed property: not compared.
            return {'ok': 1}
        rep.make_optimizers()
        rep.objects_replaced = getattr(rep, 'objects_replaced', 0) + 1
        return {'ok': 1}
    if k == 'read_cost':
        return {'cost': cost_values(m)}
    if k == 'read_summary':
        return {'summary': norm(m.summary())}
    if k in OBSERVER_OPS:
        return apply_observer(rep, op)
    raise ValueError(k)


def run_bystander(op, run_seed, idx):
    """another search living in the same process (the previous model of a sweep, the other stage of a PIT -> MPS
    pipeline, a second experiment of a notebook): an independent wrapper of ANOTHER seed network is built from the
    configuration carried by the op, pushed through a few steps, looked at and exported. It shares no object with the
    model under test except plinio itself (classes, module globals, the built-in cost specifications)."""
    rep = Replica(op['cfg'], torch_seed(run_seed, 'bystander', idx), 'B')
    for j, o in enumerate(op['ops']):
        try:
            apply_op(rep, o, 10 ** 6 + idx * 100 + j, run_seed)
        except Exception:
            pass
    return {'ok': 1}


def apply_observer(rep, op):
    m = rep.model
    k = op['op']
    if k == 'bystander':
        return run_bystander(op, op.get('seed', 0), op.get('idx', 0))
    if k == 'export':
        e = m.export()
        return {'export': 1}
    if k == 'export_nobn':
        e = m.export(add_bn=False) if rep.cfg['method'] == 'pit' else m.export()
        return {'export': 1}
    if k == 'summary':
        m.summary()
        return {'ok': 1}
    if k == 'str':
        str(m)
        return {'ok': 1}
    if k == 'cost':
        total_cost(m)
        return {'ok': 1}
    if k == 'get_cost':
        cs = m.cost_specification
        if isinstance(cs, dict):
            names = sorted(cs)
            m.get_cost(names[op.get('i', 0) % len(names)])
        else:
            m.get_cost()
        return {'ok': 1}
    if k == 'switch_spec_and_back':
        cur = rep.cost_name
        m.cost_specification = user_spec(rep, op['name'])
        try:
            total_cost(m)
        finally:
            # the script switches back also when the other specification cannot price this model (the read raises)
            m.cost_specification = user_spec(rep, cur)
        return {'ok': 1}
    if k == 'named_params':
        list(m.named_nas_parameters())
        list(m.named_net_parameters())
        return {'ok': 1}
    if k == 'state_dict':
        m.state_dict()
        return {'ok': 1}
    if k == 'nas_summary':
        # further read-only reporting helpers of the wrappers
        if hasattr(m, 'nas_parameters_summary'):
            m.nas_parameters_summary(post_sampling=bool(op.get('i', 0)))
        elif hasattr(m, 'get_total_icv'):
            m.get_total_icv()
        else:
            m.summary()
        return {'ok': 1}
    if k == 'export_and_eval':
        # export, then evaluate the exported network on a batch (inference only), as a user checking the
        # intermediate architecture would
        e = m.export()
        e.eval()
        g = torch.Generator()
        g.manual_seed(12345)
        x = torch.rand((2,) + tuple(rep.cfg['spec']['in_shape']), generator=g)
        with torch.no_grad():
            guarded(lambda: call_model(e, x))
        return {'export': 1}
    raise ValueError(k)


# ----------------------------------------------------------------------------------------------
# reads, probes, comparison
# ----------------------------------------------------------------------------------------------
def tensor_list(t):
    return t.detach().to(torch.float64).flatten().tolist()


def norm(o):
    """normalise any observation into nested JSON (tensors -> lists of floats)"""
    if isinstance(o, torch.Tensor):
        return {'__t': list(o.shape), 'v': tensor_list(o)}
    if isinstance(o, dict):
        return {str(k): norm(v) for k, v in o.items()}
    if isinstance(o, (list, tuple)):
        return [norm(v) for v in o]
    if isinstance(o, (bool, int, str)) or o is None:
        return o
    if isinstance(o, float):
        return o
    if isinstance(o, torch.Size):
        return list(o)
    return repr(o)


def diff(a, b, path=''):
    """first difference between two normalised observations (floats compared with tolerance);
    returns None if equal, else (path, a_val, b_val)"""
    if isinstance(a, float) or isinstance(b, float):
        if isinstance(a, (int, float)) and isinstance(b, (int, float)) and not isinstance(a, bool) \
                and not isinstance(b, bool):
            if a == b or (math.isnan(a) and math.isnan(b)):
                return None
            if abs(a - b) <= ATOL + RTOL * max(abs(a), abs(b)):
                return None
        return (path, a, b)
    if type(a) != type(b):
        return (path, a, b)
    if isinstance(a, dict):
        if set(a) != set(b):
            return (path + '/<keys>', sorted(set(a) - set(b)), sorted(set(b) - set(a)))
        for k in a:
            d = diff(a[k], b[k], f'{path}/{k}')
            if d:
                return d
        return None
    if isinstance(a, list):
        if len(a) != len(b):
            return (path + '/<len>', len(a), len(b))
        for i, (x, y) in enumerate(zip(a, b)):
            d = diff(x, y, f'{path}/{i}')
            if d:
                return d
        return None
    return None if a == b else (path, a, b)


def as_tensor(v):
    """state_dict entries are tensors - except the "extra state" a module may add through get_extra_state(), which is
    any picklable object: it is represented by the bytes of its canonical JSON / repr form, so that digests, shape
    checks and comparisons treat it like any other entry"""
    if isinstance(v, torch.Tensor):
        return v
    import json
    try:
        txt = json.dumps(v, sort_keys=True, default=repr)
    except Exception:
        txt = repr(v)
    return torch.tensor(list(txt.encode()), dtype=torch.uint8)


def tdigest(t):
    t = as_tensor(t)
    return hashlib.sha1(t.detach().contiguous().cpu().numpy().tobytes()).hexdigest()[:16]


def pure_reads(model):
    """reads that execute no plinio observer code: parameters, buffers, training flags,
    requires_grad, pending gradients"""
    params, bufs, rg, grads = {}, {}, {}, {}
    pnames = set()
    for n, p in model.named_parameters():
        params[n] = p.detach()
        rg[n] = bool(p.requires_grad)
        grads[n] = None if p.grad is None else p.grad.detach()
        pnames.add(n)
    for n, t in model.state_dict().items():
        if n not in pnames:
            bufs[n] = as_tensor(t).detach()
    # training flags of every real module; the untyped containers torch.fx creates for nested
    # qualified names (type exactly nn.Module) are inert and excluded
    flags = {n: bool(mod.training) for n, mod in model.named_modules() if type(mod) is not nn.Module}
    return {'params': params, 'bufs': bufs, 'rg': rg, 'grads': grads, 'flags': flags}


def reads_digest(r):
    h = hashlib.sha1()
    for sec in ('params', 'bufs', 'grads'):
        for n in sorted(r[sec]):
            t = r[sec][n]
            h.update(n.encode())
            h.update(b'-' if t is None else tdigest(t).encode())
    h.update(repr(sorted(r['rg'].items())).encode())
    h.update(repr(sorted(r['flags'].items())).encode())
    return h.hexdigest()[:16]


def tensors_differ(a, b):
    if a is None or b is None:
        return not (a is None and b is None)
    if a.shape != b.shape:
        return True
    if torch.equal(a, b):
        return False
    return not torch.allclose(a.double(), b.double(), rtol=RTOL, atol=ATOL, equal_nan=True)


def compare_reads(ra, rb, sections=('params', 'rg', 'flags', 'grads', 'bufs')):
    """returns list of (section, name, detail) differences"""
    out = []
    for sec in sections:
        A, B = ra[sec], rb[sec]
        if set(A) != set(B):
            out.append((sec, '<keys>', f'only_a={sorted(set(A) - set(B))[:4]} only_b={sorted(set(B) - set(A))[:4]}'))
            continue
        for n in A:
            if sec in ('params', 'bufs', 'grads'):
                if tensors_differ(A[n], B[n]):
                    da = None if A[n] is None else A[n].flatten()[:4].tolist()
                    db = None if B[n] is None else B[n].flatten()[:4].tolist()
                    out.append((sec, n, f'{da} vs {db}'))
            elif A[n] != B[n]:
                out.append((sec, n, f'{A[n]} vs {B[n]}'))
    return out


def module_signature(mod):
    """structure of an exported network: (qualified name, type, hyper-parameters) of every sub-module"""
    sig = []
    keys = ('in_channels', 'out_channels', 'kernel_size', 'stride', 'padding', 'dilation', 'groups',
            'in_features', 'out_features', 'num_features', 'precision', 'a_precision', 'w_precision',
            'in_precision', 'out_precision')
    for n, sm in mod.named_modules():
        d = {}
        for k in keys:
            if hasattr(sm, k):
                try:
                    d[k] = norm(getattr(sm, k))
                except Exception as e:   # noqa
                    d[k] = f'<{type(e).__name__}>'
        if hasattr(sm, 'bias') and not isinstance(getattr(sm, 'bias', None), nn.Module):
            d['has_bias'] = getattr(sm, 'bias', None) is not None
        # (the class name of the root is whatever torch.fx calls the traced module - it changes when a GraphModule is
        # deep-copied - and carries no information about the network)
        sig.append([n, type(sm).__name__ if n else 'root', d])
    return sig


def guarded(fn):
    # torch.fx prints the generated code to stderr when a GraphModule forward raises: keep it quiet
    import contextlib
    import io as _io
    try:
        with contextlib.redirect_stderr(_io.StringIO()):
            return fn()
    except Exception as e:
        return {'__raised': type(e).__name__, 'msg': str(e)[:200]}


def full_probe(rep, run_seed, forward_first=True, tag='probe'):
    """the observable behaviour of a replica: outputs, costs, summary, exported network.
    With forward_first=False the cost and summary are read before any forward pass (C18: an observer
    may have run right before)."""
    m = rep.model
    obs = {}
    was_training = m.training
    x, _ = data_for(rep.cfg, run_seed, 10 ** 6)
    s = torch_seed(run_seed, tag)

    def fwd(mode):
        m.train() if mode == 'train' else m.eval()
        torch.manual_seed(s)
        with torch.no_grad():
            return tensor_list(call_model(m, x))
    if not forward_first:
        obs['cost_before_forward'] = guarded(lambda: cost_values(m))
        obs['summary_before_forward'] = guarded(lambda: norm(m.summary()))
    obs['out_eval'] = guarded(lambda: fwd('eval'))
    obs['cost_eval'] = guarded(lambda: cost_values(m))
    obs['summary'] = guarded(lambda: norm(m.summary()))
    obs['out_train'] = guarded(lambda: fwd('train'))
    obs['cost_train'] = guarded(lambda: cost_values(m))
    m.eval()
    torch.manual_seed(s)
    with torch.no_grad():
        guarded(lambda: call_model(m, x))

    def do_export():
        torch.manual_seed(s)
        e = m.export()
        o = {'struct': module_signature(e)}
        o['state'] = {k: tdigest(v) if v.dtype not in (torch.float32, torch.float64) else norm(v)
                      for k, v in e.state_dict().items()}
        e.eval()
        with torch.no_grad():
            o['out'] = guarded(lambda: tensor_list(call_model(e, x)))
        return o
    obs['export'] = guarded(do_export)
    m.train() if was_training else m.eval()
    return obs
