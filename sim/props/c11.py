"""C11 — trainability controls do what they say under every sequence of calls.

Simulated system: the user's training script issuing control calls (train_nas_only / train_net_only /
train_net_and_nas, PIT train_* and discrete_cost switches, update_softmax_options with single options
and combinations, train()/eval()) interleaved with training steps, aborted forwards and crash/restart.
Oracle: an abstract control-state reference model (ours) updated op by op with the documented meaning,
and invariants evaluated on the real model after every op (DESIGN.md §2/C11).
"""
import hashlib
import json
from sim.prng import Stream, mix, torch_seed
from sim import sched

ID = 'C11'
RULE = ('a case = (grammar architecture with frozen and shared components x method x constructor options) x a history '
        'of 3-14 (thorough: up to 24) control calls and training steps, with aborted forwards and crash/restart as '
        'faults; distinct = distinct normalised (method, options, architecture features, op-label sequence); '
        'non-trivial = at least two control calls of different kinds were followed by a training step whose gradients '
        'were checked. Coverage of the abstract control-state space is reported as distinct abstract states / transitions')
ASSUMPTIONS = [
    'documented meaning of the controls: train_* set exactly the named group; train_features/rf/dilation := b set '
    'the non-frozen masks of that kind; update_softmax_options changes only the options passed',
    'frozen = the maskers plinio instantiates from its PITFrozen* classes; that set is cross-checked against the one '
    'derived from the architecture spec (strided Conv1d => rf and dilation; width group reaching a network input or '
    'output => features)',
    'sampler behaviour is compared under a fixed torch seed in training mode (eval-mode sampling is C10); the Gumbel '
    'reference is torch.nn.functional.gumbel_softmax on the global torch RNG, as plinio uses it - a re-implementation '
    'of the noise generation with another draw pattern would need the reference to be updated',
]
COMPONENTS = {'PIT / MPS / SuperNet wrappers and all searchable layers, maskers, quantizer samplers, combiners': 'real',
              'abstract control state (trainable groups, sampler options)': 'reference model (ours)',
              'training script, aborts, crash/restart': 'simulated'}
SIM_TIME_UNIT = 'ops of the simulated training loop'

BASE_WEIGHTS = {'ckpt': 0.8, 'train_step': 4, 'backward_only': 0.7, 'opt_step': 0.7, 'forward_only': 0.7, 'perturb_arch': 0.7, 'perturb_net': 0.7,
                'set_mode': 1.2, 'train_group': 4, 'set_flag': 3, 'softmax_opts': 3.5, 'read_cost': 0.3}


def budget(tier):
    return {'runs': 4000, 'seconds': 75} if tier == 'quick' else {'runs': 200000, 'seconds': 1500}


STEP = {'op': 'train_step', 'which': 'both', 'lam': 1e-3, 'lr': 0.05, 'cost': True}


def alphabet(method):
    """the control alphabet of the statement for one method (plus one training step of loss + cost)"""
    a = [{'op': 'train_nas_only'}, {'op': 'train_net_only'}, {'op': 'train_net_and_nas'}]
    if method == 'pit':
        for f in ('train_features', 'train_rf', 'train_dilation', 'discrete_cost'):
            a += [{'op': 'set_flag', 'flag': f, 'value': True}, {'op': 'set_flag', 'flag': f, 'value': False}]
    else:
        a.append({'op': 'softmax_opts', 'kw': {'temperature': 0.5}})
        for o in (('hard', 'gumbel', 'disable_sampling') if method == 'mps' else ('hard',)):
            a += [{'op': 'softmax_opts', 'kw': {o: True}}, {'op': 'softmax_opts', 'kw': {o: False}}]
        if method == 'sn':
            a += [{'op': 'set_flag', 'flag': 'train_selection', 'value': True},
                  {'op': 'set_flag', 'flag': 'train_selection', 'value': False}]
    a.append(dict(STEP))
    return a


def systematic_sizes(tier):
    L = 2 if tier == 'quick' else 3
    sizes = []
    for m in ('pit', 'mps', 'sn'):
        n = len(alphabet(m))
        sizes.append((m, L, sum(n ** k for k in range(1, L + 1))))
    return sizes


def systematic_case(seed, run, tier):
    """the first runs of every batch enumerate ALL control-call sequences up to length 2 (thorough: 3) over the
    alphabet of the statement, per method, on one seeded architecture per method that contains frozen and shared
    components; a training step of loss + cost is appended. Returns None when `run` is beyond the systematic part."""
    for m, L, size in systematic_sizes(tier):
        if run < size:
            a = alphabet(m)
            n = len(a)
            k = 1
            idx = run
            while idx >= n ** k:
                idx -= n ** k
                k += 1
            seq = []
            for _ in range(k):
                seq.append(json.loads(json.dumps(a[idx % n])))
                idx //= n
            cfg = sched.gen_cfg(Stream(seed, ID, 'systematic', m, 'swarm'), Stream(seed, ID, 'systematic', m, 'arch'),
                                methods=(m,), weights=(1,))
            for kk in ('disable_sampling', 'exclude_types'):
                cfg['ctor'].pop(kk, None)
            return {'cfg': cfg, 'ops': seq + [dict(STEP)], 'run_seed': mix(seed, ID, 'systematic', m, 'run'),
                    'systematic': True}
        run -= size
    return None


def generate(seed, run, tier):
    sc = systematic_case(seed, run, tier)
    if sc is not None:
        return sc
    sw = Stream(seed, ID, run, 'swarm')
    ra = Stream(seed, ID, run, 'arch')
    rs = Stream(seed, ID, run, 'schedule')
    rf = Stream(seed, ID, run, 'faults')
    cfg = sched.gen_cfg(sw, ra)
    enabled = {k: (w if sw.chance(0.8) else 0) for k, w in BASE_WEIGHTS.items()}
    enabled['train_step'] = BASE_WEIGHTS['train_step']
    enabled['train_group'] = BASE_WEIGHTS['train_group']
    swarm = {'aborts': sw.chance(0.3)}
    n = sw.randint(3, 14 if tier == 'quick' else 24)
    ops = []
    for _ in range(n):
        op = sched.gen_base_op(cfg, rs, enabled, swarm)
        if cfg['method'] == 'sn' and rs.chance(0.12):
            op = {'op': 'set_flag', 'flag': 'train_selection', 'value': rs.chance(0.5)}
        ops.append(op)
    if not any(o['op'] in ('train_step', 'backward_only') for o in ops[1:]):
        ops.append({'op': 'train_step', 'which': 'both', 'lam': 1e-3, 'lr': 0.05, 'cost': True})
    if rf.chance(0.25):
        ops.insert(rf.randint(0, len(ops)), {'op': 'crash_restart', 'stale_example': rf.chance(0.3)})
    ops = sched.add_bystanders(cfg, ops, Stream(seed, ID, run, 'bystanders'), p=0.12)
    ops = sched.add_mode_scopes(cfg, ops, Stream(seed, ID, run, 'mixed_mode'))
    return {'cfg': cfg, 'ops': ops, 'run_seed': mix(seed, ID, run, 'run')}


def sample_view(case):
    from sim.props.c17 import sample_view as sv
    return sv(case)


def shrink_candidates(case):
    from sim.props.c17 import shrink_candidates as sc
    yield from sc(case)
    for i, o in enumerate(case['ops']):
        if o['op'] == 'softmax_opts' and len(o['kw']) > 1:
            for k in o['kw']:
                c = json.loads(json.dumps(case))
                c['ops'][i]['kw'].pop(k)
                yield c


# ----------------------------------------------------------------------------------------------
def execute(case):
    import torch
    import torch.nn.functional as F
    from sim import world as W
    from sim.twin import op_label
    from plinio.methods.pit.nn.features_masker import PITFeaturesMasker, PITFrozenFeaturesMasker
    from plinio.methods.pit.nn.timestep_masker import PITTimestepMasker, PITFrozenTimestepMasker
    from plinio.methods.pit.nn.dilation_masker import PITDilationMasker, PITFrozenDilationMasker
    from plinio.methods.mps.nn.qtz import MPSBaseQtz
    from plinio.methods.supernet.nn.combiner import SuperNetCombiner

    cfg = case['cfg']
    method = cfg['method']
    run_seed = case['run_seed']
    events, failures, stats = [], [], {}
    cover = {'abstract_states': set(), 'transitions': set(), 'systematic_control_sequences': set()}

    def bump(k, n=1):
        stats[k] = stats.get(k, 0) + n

    def fail(clause, what, msg, culprit):
        failures.append({'clause': clause, 'sig': f'{method}:{culprit}:{what}', 'msg': msg})

    rep = W.Replica(cfg, torch_seed(run_seed, 'build'), 'S')
    ctor = cfg.get('ctor', {})

    # ---- reference model ---------------------------------------------------------------------
    class Ref:
        pass
    ref = Ref()
    frozen_theta0 = {}     # value of every frozen mask right after construction (by qualified name)

    def scan(model):
        """(re)bind the reference to the live objects (after construction and after every restart)"""
        ref.frozen_t = {}        # id(tensor) -> name, for alpha/beta/gamma of frozen maskers
        ref.kind = {}            # id(param) -> 'alpha'|'beta'|'gamma'|'nas'|'net'
        ref.pname = {}
        ref.frozen_maskers = []
        frozen_cls = (PITFrozenFeaturesMasker, PITFrozenTimestepMasker, PITFrozenDilationMasker)
        for mn, mod in model.named_modules():
            if isinstance(mod, frozen_cls):
                attr = 'alpha' if isinstance(mod, PITFeaturesMasker) else \
                    ('beta' if isinstance(mod, PITTimestepMasker) else 'gamma')
                t = getattr(mod, attr)
                ref.frozen_t[id(t)] = f'{mn}.{attr}'
                ref.frozen_maskers.append((mn, mod, attr))
                frozen_theta0.setdefault(mn, mod.theta.detach().clone())
        nas_ids = set()
        for n, p in model.named_nas_parameters():
            nas_ids.add(id(p))
            if method == 'pit':
                ref.kind[id(p)] = n.rsplit('.', 1)[-1] if n.rsplit('.', 1)[-1] in ('alpha', 'beta', 'gamma') else 'nas'
            else:
                ref.kind[id(p)] = 'nas'
        ref.kind_by_name = {}
        for n, p in model.named_parameters():
            ref.pname[id(p)] = n
            if id(p) not in nas_ids:
                ref.kind[id(p)] = 'net'
            ref.kind_by_name[n] = ref.kind[id(p)]     # a parameter OBJECT may be replaced later: its name keeps its group
        ref.samplers = [(n, m) for n, m in model.named_modules() if isinstance(m, (MPSBaseQtz, SuperNetCombiner))]

    scan(rep.model)
    rep.perturb_skip = set(ref.frozen_t)
    # expected requires_grad per kind (non-frozen parameters)
    exp = {'net': True, 'nas': True,
           'alpha': ctor.get('train_features', True), 'beta': ctor.get('train_rf', True),
           'gamma': ctor.get('train_dilation', True)}
    # expected sampler options
    if method == 'mps':
        opts = {'temperature': float(ctor.get('temperature', 1.0)), 'hard': bool(ctor.get('hard_softmax', False)),
                'gumbel': bool(ctor.get('gumbel_softmax', False)),
                'disable_sampling': bool(ctor.get('disable_sampling', False))}
    elif method == 'sn':
        f = cfg['spec']['feats']
        opts = {'temperature': 1.0, 'hard': bool(f['hard']), 'gumbel': bool(f['gumbel']), 'disable_sampling': False}
    else:
        opts = None

    # ---- cross-check of the frozen set against the architecture spec ---------------------------
    def check_frozen_set(culprit):
        if method != 'pit':
            return
        spec = cfg['spec']
        feats = spec['feats']
        want_time = set(feats['strided_convs']) if spec['dim'] == 1 else set()
        got_time = set()
        got_feat = set()
        for mn, mod, attr in ref.frozen_maskers:
            # seed.<layer>.<masker>
            layer = mn.split('.')[1]
            if attr in ('beta', 'gamma'):
                got_time.add(layer)
            else:
                got_feat.add(layer)
        want_feat = {n for n in spec['mods'] if n.startswith('out')}
        if feats.get('input_residual'):
            first = next(i['m'] for i in spec['prog'] if i['op'] == 'call' and spec['mods'][i['m']]['t'].startswith('conv'))
            want_feat.add(first)
        excluded = set(ctor.get('exclude_names', ()))
        for et in ctor.get('exclude_types', ()):
            excluded |= {n for n, d in spec['mods'].items() if d['t'].startswith(et)}
        want_time -= excluded
        want_feat -= excluded
        bump('frozen_set_checks')
        if got_time != want_time:
            fail('receptive-field/dilation masks frozen by PIT are not exactly those of the strided Conv1d layers',
                 'frozen-set-time', f'frozen={sorted(got_time)} strided={sorted(want_time)}', culprit)
        if got_feat != want_feat:
            fail('feature masks frozen by PIT are not exactly those tied to network inputs/outputs',
                 'frozen-set-features', f'frozen={sorted(got_feat)} expected={sorted(want_feat)}', culprit)

    # ---- invariants -----------------------------------------------------------------------------
    def check_static(culprit, tag):
        m = rep.model
        # (1) partition by identity
        allp = [id(p) for p in m.parameters()]
        nas = [id(p) for p in m.nas_parameters()]
        net = [id(p) for p in m.net_parameters()]
        bump('partition_checks')
        # the listing itself must be stable: asking again (also after a partially consumed iterator was dropped)
        # gives the same parameters in the same order
        it_ = m.nas_parameters()
        next(it_, None)
        del it_
        it_ = m.net_parameters()
        next(it_, None)
        del it_
        nas2 = [id(p) for p in m.nas_parameters()]
        net2 = [id(p) for p in m.net_parameters()]
        if nas2 != nas or net2 != net:
            fail('nas_parameters() / net_parameters() give another answer when asked again', 'partition-unstable',
                 f'{tag}: nas {len(nas)} -> {len(nas2)} net {len(net)} -> {len(net2)}', culprit)
        named_nas = [id(p) for _, p in m.named_nas_parameters()]
        named_net = [id(p) for _, p in m.named_net_parameters()]
        if named_nas != nas or named_net != net:
            fail('named_*_parameters() and *_parameters() do not list the same parameters', 'partition-named-differs',
                 f'{tag}: nas {len(nas)} vs named {len(named_nas)}; net {len(net)} vs named {len(named_net)}', culprit)
        if len(set(nas)) != len(nas) or len(set(net)) != len(net):
            fail('a parameter is reported twice by nas_parameters() or net_parameters()', 'partition-duplicate',
                 f'{tag}: nas {len(nas)}/{len(set(nas))} net {len(net)}/{len(set(net))}', culprit)
        if set(nas) & set(net):
            fail('a parameter is reported both as architectural and as network parameter', 'partition-overlap',
                 f'{tag}: {[ref.pname.get(i) for i in list(set(nas) & set(net))[:3]]}', culprit)
        if set(nas) | set(net) != set(allp):
            missing = [ref.pname.get(i, '?') for i in set(allp) - set(nas) - set(net)]
            extra = len((set(nas) | set(net)) - set(allp))
            fail('nas_parameters() and net_parameters() do not cover parameters()', 'partition-cover',
                 f'{tag}: unreported={missing[:4]} foreign={extra}', culprit)
        # (2)/(3) requires_grad
        for n, p in m.named_parameters():
            if id(p) in ref.frozen_t:
                bump('frozen_requires_grad_checks')
                if p.requires_grad:
                    fail('a mask frozen by construction became trainable', 'frozen-trainable',
                         f'{tag}: {n}.requires_grad is True', culprit)
                    return
            else:
                kind_ = ref.kind.get(id(p)) or ref.kind_by_name.get(n, 'net')
                want = exp[kind_]
                if bool(p.requires_grad) != bool(want):
                    fail('requires_grad does not match what the control calls issued so far should give',
                         'requires-grad-' + kind_,
                         f'{tag}: {n}.requires_grad={p.requires_grad}, reference says {want} '
                         f'(reference state {exp})', culprit)
                    return
        # frozen masks keep their (all open) value whatever was trained, and never require a gradient
        for mn, mod, attr in ref.frozen_maskers:
            t_ = getattr(mod, attr)
            if t_.requires_grad or getattr(mod, 'trainable', False):
                fail('a mask frozen by construction became trainable', 'frozen-trainable',
                     f'{tag}: {mn}.{attr}.requires_grad={t_.requires_grad} trainable={getattr(mod, "trainable", None)}', culprit)
                return
            if t_.grad is not None and bool(torch.any(t_.grad != 0)):
                fail('a mask frozen by construction received a gradient from loss + cost', 'frozen-grad',
                     f'{tag}: {mn}.{attr}.grad={t_.grad.flatten()[:4].tolist()}', culprit)
                return
            th = mod.theta.detach()
            bump('frozen_value_checks')
            if not torch.equal(th, frozen_theta0[mn]):
                fail('a mask frozen by construction changed its value', 'frozen-value',
                     f'{tag}: {mn}.theta={th.flatten()[:6].tolist()}', culprit)
                return
        # (5) sampler behaviour
        if opts is not None:
            for n, q in ref.samplers:
                alpha = q.alpha.detach()
                if not bool(torch.isfinite(alpha).all()):
                    bump('sampler_check_skipped_nonfinite_coefficients')   # the statement covers finite values only
                    continue
                saved = q.theta_alpha
                was = q.training
                q.training = True
                s = torch_seed(run_seed, 'sampler', n)
                try:
                    torch.manual_seed(s)
                    with torch.no_grad():
                        q.sample_alpha()
                    got = q.theta_alpha.detach().clone()
                finally:
                    q.theta_alpha = saved      # plain attribute or buffer: nn.Module.__setattr__ puts it back where it lives
                    q.training = was
                T = opts['temperature']
                torch.manual_seed(s)
                with torch.no_grad():
                    if opts['disable_sampling']:
                        want = saved.detach()
                    elif opts['gumbel']:
                        want = F.gumbel_softmax(alpha, tau=T, hard=opts['hard'], dim=0)
                    else:
                        want = F.softmax(alpha / T, dim=0)
                        if opts['hard']:
                            want = F.one_hot(torch.argmax(want, dim=0), num_classes=want.shape[0]).t().float() \
                                if want.dim() > 1 else F.one_hot(torch.argmax(want, dim=0), num_classes=want.shape[0]).float()
                bump('sampler_behaviour_checks')
                if got.shape != want.shape or not torch.allclose(got, want, rtol=1e-4, atol=1e-6, equal_nan=True):
                    fail('a sampler does not behave as the options set so far say (an unspecified option was changed)',
                         'sampler-options', f'{tag}: {n}: reference options {opts}; sampled '
                         f'{got.flatten()[:4].tolist()} expected {want.flatten()[:4].tolist()}', culprit)
                    return

    # a trainable architectural parameter that received a gradient from loss + cost once must receive one again at
    # every later complete backward pass while it is trainable (learned from the run itself: which parameters take part
    # in the forward pass depends on the method - MPS also lists quantizers that are never called); forgotten whenever
    # the sampling options change (disabling sampling or hard SuperNet selection legitimately cut the path)
    participated = set()

    def reaches_graph(name, p):
        # demanded for PIT masks only: whether an MPS / SuperNet coefficient is in the graph depends on the sampling
        # mode in too many ways (disabled sampling with a stale autograd graph, hard one_hot(argmax) selection, eval
        # mode of Gumbel blocks, quantizers that are never called) - three false alarms came from there
        if method != 'pit':
            return False
        return name in participated

    def check_grads(culprit, tag):
        m = rep.model
        for n, p in m.named_parameters():
            g = p.grad
            if id(p) in ref.frozen_t:
                bump('frozen_grad_checks')
                if g is not None and bool(torch.any(g != 0)):
                    fail('a mask frozen by construction received a gradient from loss + cost', 'frozen-grad',
                         f'{tag}: {n}.grad={g.flatten()[:4].tolist()}', culprit)
                    return
            else:
                kind_ = ref.kind.get(id(p)) or ref.kind_by_name.get(n, 'net')
                want = exp[kind_]
                if want and kind_ != 'net' and bool(p.requires_grad) and g is None and reaches_graph(n, p):
                    bump('trainable_without_gradient_found')
                    fail('an architectural parameter of a trainable group received no gradient from loss + cost',
                         'trainable-no-grad', f'{tag}: {n} kind={kind_} requires_grad=True grad=None', culprit)
                    return
                if want and kind_ != 'net' and bool(p.requires_grad) and g is not None and \
                        not (opts is not None and opts['disable_sampling']):
                    participated.add(n)
                    bump('trainable_grad_presence_checks')
                if not want:
                    bump('nontrainable_grad_checks')
                    if g is not None and bool(torch.any(g != 0)):
                        fail('a parameter of a group that is not trainable received a gradient', 'nontrainable-grad',
                             f'{tag}: {n} kind={ref.kind.get(id(p))} grad={g.flatten()[:4].tolist()}', culprit)
                        return

    def abstract_state():
        o = None if opts is None else (round(opts['temperature'], 3) != 1.0, opts['hard'], opts['gumbel'],
                                       opts['disable_sampling'])
        return (method, exp['net'], exp['nas'], exp['alpha'], exp['beta'], exp['gamma'], o, rep.model.training)

    saved_temperature = [None]
    seen_replaced = [0]
    def reported_options(model):
        out = {}
        for n_, q in model.named_modules():
            if isinstance(q, MPSBaseQtz):
                try:
                    out[n_] = (bool(q.hard_softmax), bool(q.gumbel_softmax), bool(q.disable_sampling))
                except AttributeError:
                    return None
        return out

    def adopt_reported_options(why, before):
        """a load is not a sampling-option call, but a library that persists the options in the state_dict changes
        them legitimately on load. `before`: what every quantizer reported (hard_softmax, gumbel_softmax,
        disable_sampling) right before the load. If the load changed what some quantizers report and all of those now
        agree, the reference adopts the reported values - the samplers are then held against what the model itself
        says. On the pinned tree a load never changes them. (Quantizers the model-level option calls never reach -
        the placeholder in front of the input quantizer - report their construction defaults throughout.)"""
        if method != 'mps' or opts is None or before is None:
            return
        after = reported_options(rep.model)
        if after is None:
            return
        changed = {after[n_] for n_ in after if n_ in before and after[n_] != before[n_]}
        if len(changed) != 1:
            return
        h_, g_, d_ = next(iter(changed))
        if (h_, g_, d_) != (opts['hard'], opts['gumbel'], opts['disable_sampling']):
            bump('options_adopted_from_what_the_model_reports_after_' + why)
            opts['hard'], opts['gumbel'], opts['disable_sampling'] = h_, g_, d_
            participated.clear()

    if case.get('systematic'):
        bump('systematic_control_sequences')
        cover['systematic_control_sequences'].add(method + ':' + '>'.join(
            op_label(o) + ('=' + str(o.get('value', '')) if o['op'] == 'set_flag' else '') +
            ('=' + json.dumps(o['kw'], sort_keys=True) if o['op'] == 'softmax_opts' else '') for o in case['ops'][:-1]))
    check_frozen_set('construction')
    check_static('construction', 'after construction')
    cover['abstract_states'].add(repr(abstract_state()))
    last_control = 'construction'
    control_kinds = set()
    nontrivial = False
    steps = 0
    for idx, op in enumerate(case['ops']):
        if failures:
            break
        steps += 1
        k = op['op']
        lab = op_label(op)
        before = abstract_state()
        if k == 'crash_restart':
            bump('fault_crash_restart')
            try:
                rep.crash_restart(torch_seed(run_seed, 'rebuild', idx), stale_example=op.get('stale_example', False))
            except Exception as e:
                # restoring is C17's business; here the history simply ends
                bump('restart_raised')
                break
            scan(rep.model)
            rep.perturb_skip = set(ref.frozen_t)
            adopt_reported_options('restart', reported_options(rep.ghost) if rep.ghost is not None else None)
            check_frozen_set('restart')
            check_static('restart', f'after op {idx} crash_restart')
            events.append(f'{idx} crash_restart state={abstract_state()}')
            continue
        # reference transition
        if k == 'train_nas_only':
            exp.update(nas=True, alpha=True, beta=True, gamma=True, net=False)
        elif k == 'train_net_only':
            exp.update(nas=False, alpha=False, beta=False, gamma=False, net=True)
        elif k == 'train_net_and_nas':
            exp.update(nas=True, alpha=True, beta=True, gamma=True, net=True)
        elif k == 'set_flag':
            fl = op['flag']
            if fl == 'train_features':
                exp['alpha'] = op['value']
            elif fl == 'train_rf':
                exp['beta'] = op['value']
            elif fl == 'train_dilation':
                exp['gamma'] = op['value']
            elif fl == 'train_selection':
                exp['nas'] = op['value']
        elif k == 'save_ckpt' and opts is not None:
            saved_temperature[0] = opts['temperature']
        elif k == 'load_ckpt' and opts is not None and method == 'mps' and saved_temperature[0] is not None:
            opts['temperature'] = saved_temperature[0]      # MPS keeps its temperature in a buffer: it comes back
        elif k == 'softmax_opts' and opts is not None:
            participated.clear()
            for kk, vv in op['kw'].items():
                if kk == 'temperature':
                    opts['temperature'] = float(vv)
                else:
                    opts[kk] = bool(vv)
        if k == 'set_mode':
            participated.clear()         # (hard SuperNet selection in eval mode is a plain one_hot(argmax): no gradient)
        if k in ('train_nas_only', 'train_net_only', 'train_net_and_nas', 'set_flag', 'softmax_opts', 'set_mode'):
            last_control = lab
            control_kinds.add(k if k not in ('train_nas_only', 'train_net_only', 'train_net_and_nas') else 'train_group')
            bump('control_' + lab.split(':')[0])
        reported_before = reported_options(rep.model) if (k == 'load_ckpt' and method == 'mps') else None
        try:
            obs = W.apply_op(rep, op, idx, run_seed)
        except Exception as e:
            bump('op_raised_' + type(e).__name__)
            events.append(f'{idx} {lab} raised {type(e).__name__}: {str(e)[:80]}')
            break
        if obs.get('aborted'):
            bump('fault_abort_forward')
        if k == 'load_ckpt':
            adopt_reported_options('load', reported_before)
        if getattr(rep, 'objects_replaced', 0) != seen_replaced[0]:
            seen_replaced[0] = rep.objects_replaced
            scan(rep.model)                      # deepcopy / load_state_dict(assign=True): new objects, same model
            rep.perturb_skip = set(ref.frozen_t)
            bump('model_objects_replaced')
        check_static(last_control, f'after op {idx} {lab}')
        if k in ('train_step', 'backward_only') and not obs.get('aborted') and not failures:
            check_grads(last_control, f'after op {idx} {lab}')
            bump('gradient_checked_steps')
            if len(control_kinds) >= 2:
                nontrivial = True
        after = abstract_state()
        cover['abstract_states'].add(repr(after))
        cover['transitions'].add(repr((before, lab.split(':mid')[0])))
        events.append(f'{idx} {lab} state={after} reads={W.reads_digest(W.pure_reads(rep.model))}')
    from sim.twin import shape_of
    return {'failures': failures, 'events': events, 'stats': stats, 'steps': steps, 'nontrivial': nontrivial,
            'shape': shape_of(case), 'sim_time': steps,
            'cover': {k: sorted(v) for k, v in cover.items()}}
