"""C19 — regularizers are non-negative penalties that vanish when constraints hold.

Simulated system: a virtual-time training timeline whose clock is the epoch number handed to
DUCCIO. The scheduler issues regularizer calls batch by batch on a model whose named costs evolve
(stub with settable costs, or a real PIT model whose masks are perturbed), and injects clock faults:
repeated epochs, skipped epochs, jumps back to an earlier epoch (resume from an older checkpoint),
a late first call (lazy initialisation at an arbitrary epoch), epochs beyond n_epochs.
Oracles: closed-form reference evaluated at every call + checks over the recorded history.
"""
import hashlib
import json
import math
from sim.prng import Stream

ID = 'C19'
RULE = ('a case = (stub or real PIT model, 1-3 named costs placed above/at/below target, final strengths '
        'given or derived from task_loss, n_epochs 1..50) x a timeline of 3-40 regularizer calls whose '
        'epoch clock repeats, skips, jumps backwards or overshoots; distinct = distinct normalised timeline '
        '(model kind, metric count, mode, n_epochs, sequence of (op, epoch, cost placement)); non-trivial = '
        'at least one clock fault fired before a call on which the closed-form oracle was evaluated with '
        'the precondition (positive finite final strengths) met')
ASSUMPTIONS = [
    'precondition of the statement: all final strengths positive and finite; for derived strengths this '
    'needs every cost strictly above its target at the first call - other draws are counted as '
    'precondition_not_met and only the generic clauses (finite value, BaseRegularizer) are checked',
    'epochs are integers >= 0 (the statement covers 0..n_epochs; overshoot is added as a fault)',
    'float comparisons use rtol 1e-4 (float32 arithmetic inside DUCCIO)',
]
COMPONENTS = {'DUCCIO, BaseRegularizer': 'real', 'PIT model with {params, ops} costs (25% of runs), grammar-generated MPS / SuperNet models with dictionary costs (15%)': 'real',
              'DNAS stub with settable named costs (60% of runs)': 'stub',
              'epoch clock and training timeline': 'simulated'}
SIM_TIME_UNIT = 'epochs (sum over runs of the span of epochs visited)'


def budget(tier):
    return {'runs': 8000, 'seconds': 50} if tier == 'quick' else {'runs': 600000, 'seconds': 900}


def generate(seed, run, tier):
    sw = Stream(seed, ID, run, 'swarm')
    rs = Stream(seed, ID, run, 'schedule')
    kind = sw.wchoice([('stub', 6), ('pit', 2.5), ('mps', 0.8), ('sn', 0.7)])
    n_metrics = sw.randint(1, 3) if kind == 'stub' else sw.randint(1, 2)
    names = ['params', 'ops', 'lat'][:n_metrics]
    if kind == 'mps':
        names = ['params_bit', 'ops_bit'][:n_metrics]
    mode = sw.choice(['given', 'derived'])
    n_epochs = sw.choice([1, 2, 3, 4, 5, 7, 10, 20, 33, 50]) if sw.chance(0.5) else sw.randint(1, 50)
    faults = {k: sw.chance(0.5) for k in ('repeat', 'skip', 'back', 'late_start', 'overshoot')}
    faults['fail_read'] = Stream(seed, ID, run, 'failreads').chance(0.35)
    length = sw.randint(3, 14 if tier == 'quick' else 40)
    p_other_n = sw.choice([0.0, 0.0, 0.2, 0.5])
    case = {'kind': kind, 'names': names, 'mode': mode, 'n_epochs': n_epochs}
    if kind in ('mps', 'sn'):
        # a real MPS / SuperNet model from the architecture grammar, with a dictionary of cost specifications
        from sim import sched
        cfg = sched.gen_cfg(Stream(seed, ID, run, 'cfg'), Stream(seed, ID, run, 'arch'), methods=(kind,), weights=(1,))
        cfg['cost'] = 'dict:params_bit+ops_bit' if kind == 'mps' else 'dict:params+ops'
        for k in ('disable_sampling', 'full_cost', 'exclude_names', 'exclude_types'):
            cfg['ctor'].pop(k, None)   # (MPS full_cost on a fixed conv layer has no bit-width to charge: KeyError)
        case['cfg'] = cfg
    # cost placement relative to target: 'above' | 'at' | 'below'
    # stub: base cost in [1, 1e6], target derived from placement
    metrics = {}
    for n in names:
        c0 = rs.loguniform(1.0, 1e6)
        if mode == 'derived' and sw.chance(0.8):
            place = 'above'
        else:
            place = rs.wchoice([('above', 5), ('at', 1), ('below', 2)])
        metrics[n] = {'c0': c0, 'place': place, 'gap': rs.loguniform(1e-3, 0.9)}
    case['metrics'] = metrics
    if mode == 'given':
        case['final_strengths'] = [rs.loguniform(1e-8, 1e2) for _ in names]
    else:
        case['task_loss'] = rs.loguniform(1e-3, 10.0)
    ops = []
    epoch = rs.randint(1, n_epochs) if faults['late_start'] else 0
    for _ in range(length):
        r = rs.random()
        if r < 0.12:
            ops.append({'op': 'base', 'name': rs.choice(names),
                        'strength': rs.choice([0.0, -0.5, 1.0]) if rs.chance(0.2) else rs.loguniform(1e-6, 10.0),
                        'as_tensor': rs.chance(0.3)})
            if Stream(seed, ID, run, 'base_reuse', len(ops)).chance(0.5):
                # ONE long-lived BaseRegularizer object per run whose public attributes (strength, cost_name) the script
                # re-assigns between calls (a strength warm-up / sweep) instead of a fresh object per call
                ops[-1]['reuse'] = True
            continue
        if r < 0.32:
            # the model's costs move (training progressed): multiply by a factor
            n = rs.choice(names)
            ops.append({'op': 'move_cost', 'name': n, 'factor': rs.choice([0.25, 0.5, 0.9, 1.0, 1.1, 2.0])})
            continue
        if r < 0.42:
            ops.append({'op': 'bump_check', 'epoch': epoch, 'name': rs.choice(names), 'delta': rs.loguniform(1e-3, 0.5)})
            continue
        if faults['fail_read'] and rs.chance(0.2):
            # a usually-successful call fails: the model's get_cost raises at the k-th read of this regularizer call
            # (a metric that is not in the cost specification yet, an interrupted batch); the training loop catches
            # the exception and retries the batch
            ops.append({'op': 'call', 'epoch': epoch, 'fail_read': rs.randint(1, 2 * len(names))})
        ops.append({'op': 'call', 'epoch': epoch})
        if p_other_n and rs.chance(p_other_n):
            # the same regularizer object is also called at another schedule position: a logging call with
            # the documented defaults reg(model) (epoch=1, n_epochs=1), or under another schedule length
            if rs.chance(0.5):
                ops.append({'op': 'call', 'default_call': True, 'epoch': 1, 'n': 1})
            else:
                ops.append({'op': 'call', 'epoch': rs.choice([epoch, epoch, rs.randint(0, 50)]),
                            'n': rs.choice([1, 2, 3, 5, 10, 20, 50])})
        # advance the clock, with faults
        r = rs.random()
        if faults['repeat'] and r < 0.25:
            ops[-1]['next'] = 'repeat'
        elif faults['skip'] and r < 0.45:
            epoch += rs.randint(2, max(2, n_epochs // 2 + 1))
            ops[-1]['next'] = 'skip'
        elif faults['back'] and r < 0.6 and epoch > 0:
            epoch = rs.randint(0, epoch - 1)
            ops[-1]['next'] = 'back'
        elif faults['overshoot'] and r < 0.7:
            epoch = n_epochs + rs.randint(0, 5)
            ops[-1]['next'] = 'overshoot'
        else:
            epoch += 1
            ops[-1]['next'] = 'tick'
    # another regularizer object lives in the same process (an earlier search of a sweep, a second constraint set):
    # its construction and calls are interleaved with the history of the regularizer under test. Drawn from a
    # stream of its own, so the rest of the case does not depend on it.
    ro = Stream(seed, ID, run, 'others')
    if ro.chance(0.3):
        others = []
        for _ in range(ro.randint(1, 2)):
            o = {'names': list(names) if ro.chance(0.7) else [ro.choice(names)],
                 'n_epochs': ro.choice([1, 5, 20, 50]),
                 'c0': {n: ro.loguniform(1.0, 1e6) for n in names},
                 'gap': ro.loguniform(1e-3, 0.9), 'place': ro.wchoice([('above', 4), ('below', 1)])}
            if ro.chance(0.7):
                o['task_loss'] = ro.loguniform(1e-3, 10.0)
            else:
                o['final_strengths'] = [ro.loguniform(1e-8, 1e2) for _ in o['names']]
            others.append(o)
        case['others'] = others
        for t in range(ro.randint(1, 4)):
            j = ro.randint(0, len(others) - 1)
            pos = 0 if (t == 0 and ro.chance(0.6)) else ro.randint(0, len(ops))
            ops.insert(pos, {'op': 'other_call', 'j': j, 'epoch': ro.randint(0, others[j]['n_epochs'])})
    case['ops'] = ops
    return case


def sample_view(case):
    return case


def shrink_candidates(case):
    from sim.core import ddmin_ops
    yield from ddmin_ops(case)
    if len(case['names']) > 1:
        for drop in case['names']:
            c = json.loads(json.dumps(case))
            i = c['names'].index(drop)
            c['names'].pop(i)
            c['metrics'].pop(drop)
            if 'final_strengths' in c:
                c['final_strengths'].pop(i)
            c['ops'] = [o for o in c['ops'] if o.get('name') != drop]
            yield c


# ----------------------------------------------------------------------------------------------
def _close(a, b, rtol=1e-4, atol=0.0):
    return abs(a - b) <= atol + rtol * max(abs(a), abs(b))


def execute(case):
    import torch
    import torch.nn as nn
    from plinio.regularizers.duccio import DUCCIO
    from plinio.regularizers.base_regularizer import BaseRegularizer

    events, failures, stats = [], [], {}

    def bump(k, n=1):
        stats[k] = stats.get(k, 0) + n

    def fail(clause, sig, msg):
        failures.append({'clause': clause, 'sig': sig, 'msg': msg})

    names = case['names']
    n_ep = case['n_epochs']

    # ---- the model ---------------------------------------------------------------------------
    if case['kind'] == 'stub':
        class Stub:
            def __init__(self):
                self.c = {n: torch.tensor(float(case['metrics'][n]['c0']), requires_grad=True) for n in names}
                self.reads = 0

            def get_cost(self, name):
                self.reads += 1
                return self.c[name] * 1.0

            def scale(self, name, f):
                self.c[name] = torch.tensor(float(self.c[name].detach()) * f, requires_grad=True)
        model = Stub()
    elif case['kind'] in ('mps', 'sn'):
        from sim import world as W
        from sim.prng import torch_seed
        rep = W.Replica(case['cfg'], torch_seed(7, 'c19build'), 'S')
        rep.model.train()

        class RealGrammar:
            def __init__(self):
                self.k = 0

            def get_cost(self, name):
                return rep.model.get_cost(name)

            def scale(self, name, f):
                # costs move because the selection coefficients move (and are re-sampled by a forward pass)
                self.k += 1
                W.perturb_arch(rep, 7, self.k, 'real')
                x, _ = W.data_for(case['cfg'], 7, self.k)
                torch.manual_seed(self.k)
                with torch.no_grad():
                    W.call_model(rep.model, x)
        model = RealGrammar()
        x0, _ = W.data_for(case['cfg'], 7, 0)
        torch.manual_seed(0)
        with torch.no_grad():
            W.call_model(rep.model, x0)
    else:
        from plinio.methods import PIT
        from plinio.cost import params, ops as ops_spec

        class Net(nn.Module):
            def __init__(self):
                super().__init__()
                self.c0 = nn.Conv1d(2, 6, 3, padding=1)
                self.c1 = nn.Conv1d(6, 8, 5, padding=2)
                self.c2 = nn.Conv1d(8, 4, 3, padding=1)
                self.lin = nn.Linear(4 * 8, 3)

            def forward(self, x):
                x = torch.relu(self.c0(x))
                x = torch.relu(self.c1(x))
                x = torch.relu(self.c2(x))
                return self.lin(x.flatten(1))
        torch.manual_seed(7)
        pit = PIT(Net(), cost={'params': params, 'ops': ops_spec}, input_shape=(2, 8))

        class Real:
            def __init__(self):
                self.pit = pit
                self.frac = {n: 1.0 for n in names}

            def get_cost(self, name):
                return self.pit.get_cost(name)

            def scale(self, name, f):
                # costs move because the masks move: scale the (continuous) channel masks
                self.frac[name] = min(1.0, max(0.05, self.frac[name] * f))
                fr = min(self.frac.values())
                with torch.no_grad():
                    for p in self.pit.nas_parameters():
                        if p.shape[0] in (6, 8, 4):
                            p.fill_(fr)
        model = Real()
    # ---- fault seam: the model's get_cost raises at the k-th read after arming --------------------
    class SimReadFault(RuntimeError):
        pass
    armed = {'at': None, 'n': 0}
    _inner_get_cost = model.get_cost

    def faulty_get_cost(name):
        if armed['at'] is not None:
            armed['n'] += 1
            if armed['n'] == armed['at']:
                armed['at'] = None
                raise SimReadFault(name)
        return _inner_get_cost(name)
    model.get_cost = faulty_get_cost
    # targets from the placement at time 0
    targets = {}
    for n in names:
        c0 = float(model.get_cost(n).detach())
        m = case['metrics'][n]
        if m['place'] == 'above':
            targets[n] = torch.tensor(c0 * (1 - m['gap']))
        elif m['place'] == 'at':
            targets[n] = torch.tensor(c0)
        else:
            targets[n] = torch.tensor(c0 * (1 + m['gap']))
    targets0 = {n_: float(t_) for n_, t_ in targets.items()}
    if case['mode'] == 'given':
        given = tuple(torch.tensor(float(s)) for s in case['final_strengths'])
        reg = DUCCIO(targets, final_strengths=given)
        finals = [float(s) for s in given]
    else:
        reg = DUCCIO(targets, task_loss=torch.tensor(float(case['task_loss'])))
        finals = None        # fixed by the first call

    precond = True
    history = []     # (call index, epoch, metric, observed strength, final)
    first_call_done = False
    last_epoch = None
    epochs_seen = set()
    fault_before_checked_call = False
    pending_fault = False
    nontrivial = False
    steps = 0

    def cost_now(n):
        return float(model.get_cost(n).detach())

    def ref_strength(s, e, n=None):
        n = n_ep if n is None else n
        return min(s / 100.0 + e * (s * 99.0 / 100.0) / (n / 2.0), s)

    def do_call(i, epoch, tag, n_sched=None, default_call=False):
        """one regularizer call with all per-call oracle clauses; returns value"""
        nonlocal finals, precond, first_call_done, nontrivial
        n_sched = n_ep if n_sched is None else n_sched
        costs = {n: cost_now(n) for n in names}
        if not first_call_done and case['mode'] == 'derived':
            # reference for the lazily derived strengths: task_loss / (cost - target) at the FIRST call
            finals = []
            for n in names:
                d = costs[n] - float(targets[n])
                if d <= 0 or not math.isfinite(case['task_loss'] / d if d != 0 else float('inf')):
                    precond = False
                    finals.append(0.0 if d < 0 else float('inf'))
                else:
                    finals.append(case['task_loss'] / d)
            if not precond:
                bump('precondition_not_met')
        if case['kind'] == 'stub':
            for n in names:
                model.c[n].grad = None
        val = reg(model) if default_call else reg(model, epoch, n_sched)
        first_call_done = True
        bump('duccio_calls')
        v = float(val.detach())
        events.append(f'{i} {tag} epoch={epoch}/{n_sched} costs={ {n: round(c, 4) for n, c in costs.items()} } -> {v:.6g}')
        if not precond:
            return v
        if pending_fault_flag[0]:
            nontrivial = True
        # (a) finite, non-negative
        if not math.isfinite(v) or v < 0:
            fail('DUCCIO value is not a finite non-negative number', 'duccio:value-range',
                 f'epoch={epoch} value={v}')
            return v
        # (b) zero exactly when every cost is at or below target
        excess = {n: max(0.0, costs[n] - float(targets[n])) for n in names}
        all_ok = all(e == 0.0 for e in excess.values())
        if all_ok and v != 0.0:
            fail('DUCCIO is non-zero although every cost is at or below its target', 'duccio:nonzero-when-satisfied',
                 f'epoch={epoch} value={v} costs={costs} targets={ {n: float(t) for n, t in targets.items()} }')
        if (not all_ok) and v <= 0.0:
            fail('DUCCIO is zero although a cost exceeds its target', 'duccio:zero-when-violated',
                 f'epoch={epoch} value={v} excess={excess} finals={finals}')
        bump('calls_all_satisfied' if all_ok else 'calls_with_excess')
        # (c) closed form
        ref = sum(ref_strength(s, epoch, n_sched) * excess[nm] for nm, s in zip(names, finals))
        if not _close(v, ref, rtol=2e-4, atol=1e-30):
            fail('DUCCIO value differs from sum_i strength_i(epoch) * max(0, cost_i - target_i)',
                 'duccio:closed-form', f'epoch={epoch}/{n_sched} value={v} reference={ref} finals={finals} excess={excess}')
        # (d) effective strengths, read as d value / d cost_i (stub) or value/excess (single metric)
        obs = {}
        if case['kind'] == 'stub' and not val.requires_grad and not all_ok:
            fail('DUCCIO returns a value without gradient although a cost exceeds its target (no regularisation '
                 'gradient reaches the architecture)', 'duccio:no-gradient', f'epoch={epoch} value={v} excess={excess}')
        if case['kind'] == 'stub' and val.requires_grad:
            val.backward()
            for n in names:
                g = model.c[n].grad
                obs[n] = 0.0 if g is None else float(g)
        elif len(names) == 1 and excess[names[0]] > 0:
            obs[names[0]] = v / excess[names[0]]
        for nm, s in zip(names, finals):
            if nm not in obs:
                continue
            if excess[nm] > 0:
                history.append((i, epoch, nm, obs[nm], s, n_sched))
                bump('strength_observations')
                r = ref_strength(s, epoch, n_sched)
                if not _close(obs[nm], r, rtol=2e-4):
                    fail('effective strength differs from min(s/100 + epoch*0.99 s/(n/2), s)',
                         'duccio:strength-closed-form',
                         f'metric={nm} epoch={epoch}/{n_sched} observed={obs[nm]} reference={r} final={s}')
            elif costs[nm] < float(targets[nm]):
                if obs[nm] != 0.0:
                    fail('a cost below target contributes a gradient', 'duccio:grad-below-target',
                         f'metric={nm} grad={obs[nm]}')
            else:
                # exactly at the target the penalty has a kink: any sub-gradient in [0, strength] is
                # legitimate (torch.maximum returns one half); the statement says nothing about it
                bump('kink_subgradient_not_checked')
                if not (0.0 <= obs[nm] <= ref_strength(s, epoch, n_sched) * (1 + 2e-4)):
                    fail('sub-gradient at the target is outside [0, strength]', 'duccio:grad-at-target',
                         f'metric={nm} grad={obs[nm]}')
        # (e) lazily derived strengths never change after the first call
        if case['mode'] == 'derived':
            cur = [float(s) for s in reg.final_strengths]
            if any(not _close(a, b, rtol=1e-5) for a, b in zip(cur, finals)):
                fail('derived final strengths changed after the first call', 'duccio:derived-strength-changed',
                     f'now={cur} first={finals}')
        return v

    pending_fault_flag = [False]
    others = {}
    base_obj = []

    def other_call(i, op):
        """a call of ANOTHER regularizer object (own targets, own strengths, own stub model), built at its first use"""
        j = op['j']
        o = case['others'][j]
        f = (1 - o['gap']) if o['place'] == 'above' else (1 + o['gap'])
        if j not in others:
            tg = {n: torch.tensor(float(o['c0'][n]) * f) for n in o['names']}
            if 'task_loss' in o:
                r = DUCCIO(tg, task_loss=torch.tensor(float(o['task_loss'])))
            else:
                r = DUCCIO(tg, final_strengths=tuple(torch.tensor(float(s_)) for s_ in o['final_strengths']))

            class OtherStub:
                def get_cost(self, name):
                    return torch.tensor(float(o['c0'][name]), requires_grad=True) * 1.0
            others[j] = (r, OtherStub(), tg)
        r, st, tg = others[j]
        v = float(r(st, op['epoch'], o['n_epochs']).detach())
        events.append(f"{i} other regularizer #{j} epoch={op['epoch']}/{o['n_epochs']} -> {v:.6g}")
        if o['place'] != 'above':
            return
        # the other object obeys the same closed form, whatever the object under test did before
        exc = {n: float(torch.tensor(float(o['c0'][n]))) - float(tg[n]) for n in o['names']}
        if any(not (e_ > 0) for e_ in exc.values()):
            return
        fin = [o['task_loss'] / exc[n] for n in o['names']] if 'task_loss' in o else \
            [float(torch.tensor(float(s_))) for s_ in o['final_strengths']]
        if not all(math.isfinite(x) for x in fin):
            return
        ref = sum(ref_strength(s_, op['epoch'], o['n_epochs']) * exc[n] for n, s_ in zip(o['names'], fin))
        bump('other_regularizer_closed_form_checks')
        if not math.isfinite(v) or not _close(v, ref, rtol=2e-4, atol=1e-30):
            fail('DUCCIO value differs from sum_i strength_i(epoch) * max(0, cost_i - target_i)',
                 'duccio:closed-form', f"(second regularizer object of the process) epoch={op['epoch']}/{o['n_epochs']} "
                 f'value={v} reference={ref} finals={fin} excess={exc}')

    for i, op in enumerate(case['ops']):
        steps += 1
        k = op['op']
        if k == 'other_call':
            bump('fault_other_regularizer_object_called')
            pending_fault_flag[0] = True
            other_call(i, op)
        elif k == 'base':
            st = torch.tensor(float(op['strength'])) if op.get('as_tensor') else op['strength']
            if op.get('reuse') and base_obj:
                br = base_obj[0]
                br.strength = st
                br.cost_name = op['name']
                bump('base_regularizer_object_reused_with_reassigned_strength')
            else:
                br = BaseRegularizer(cost_name=op['name'], strength=st)
                if op.get('reuse'):
                    base_obj.append(br)
            c_before = cost_now(op['name'])
            val_b = br(model)
            got = float(val_b.detach())
            ref = op['strength'] * c_before
            if case['kind'] == 'stub' and val_b.requires_grad:
                # the gradient with respect to the named cost is the strength
                model.c[op['name']].grad = None
                val_b.backward()
                g_ = model.c[op['name']].grad
                bump('base_regularizer_gradient_checks')
                if g_ is None or not _close(float(g_), float(op['strength']), rtol=1e-5, atol=1e-12):
                    fail('the gradient of BaseRegularizer with respect to the named cost is not the strength',
                         'base:gradient', f'grad={None if g_ is None else float(g_)} strength={op["strength"]}')
            if not _close(cost_now(op['name']), c_before, rtol=0, atol=0):
                fail('BaseRegularizer changed the cost it read', 'base:side-effect', '')
            bump('base_regularizer_calls')
            events.append(f"{i} base {op['name']} x {op['strength']:.4g} -> {got:.6g}")
            if not _close(got, ref, rtol=1e-5, atol=1e-30):
                fail('BaseRegularizer is not strength x named cost', 'base:value', f'got={got} ref={ref}')
        elif k == 'move_cost':
            model.scale(op['name'], op['factor'])
            bump('cost_moves')
            events.append(f"{i} move {op['name']} x{op['factor']}")
        elif k == 'call':
            if not first_call_done and op['epoch'] > 0:
                bump('fault_late_first_call')
                pending_fault_flag[0] = True
            n_call = op.get('n', n_ep)
            if op['epoch'] > n_call:
                bump('fault_epoch_overshoot')
                pending_fault_flag[0] = True
            if n_call != n_ep or op.get('default_call'):
                bump('fault_other_schedule_position_on_same_object' +
                     ('_default_args' if op.get('default_call') else ''))
                pending_fault_flag[0] = True
            if op.get('fail_read'):
                # the call dies inside the regularizer; the simulated loop catches the exception and goes on (the very
                # next op is the retry of the same batch, so lazily derived strengths see the same costs either way)
                armed['at'], armed['n'] = op['fail_read'], 0
                try:
                    reg(model, op['epoch'], n_call)
                    bump('fault_failing_cost_read_not_reached')
                except SimReadFault:
                    bump('fault_failing_cost_read_in_first_call' if not first_call_done else 'fault_failing_cost_read')
                    pending_fault_flag[0] = True
                    events.append(f"{i} call epoch={op['epoch']} died at cost read #{op['fail_read']}")
                armed['at'] = None
                continue
            do_call(i, op['epoch'], 'call', n_sched=n_call, default_call=op.get('default_call', False))
            epochs_seen.add(op['epoch'])
            nx = op.get('next')
            if nx in ('repeat', 'skip', 'back', 'overshoot'):
                bump('fault_clock_' + nx)
                pending_fault_flag[0] = True
        elif k == 'bump_check':
            # monotonicity in each excess, at a fixed schedule position (stub only: costs are settable)
            if case['kind'] != 'stub' or not first_call_done:
                continue
            n = op['name']
            e = op['epoch']
            v0 = do_call(i, e, 'bump-before')
            before = cost_now(n)
            model.scale(n, 1.0 + op['delta'])
            after = cost_now(n)
            v1 = do_call(i, e, 'bump-after')
            model.scale(n, before / after)
            bump('monotonicity_checks')
            if not precond:
                continue
            t = float(targets[n])
            if after > t and after > before:
                # strict growth is demanded only where float32 can represent it: the expected increase
                # must exceed a few ulps of the total (a tiny excess next to a huge one is absorbed)
                i_n = names.index(n)
                exp_delta = ref_strength(finals[i_n], e) * (after - max(before, t))
                if exp_delta <= 8 * 1.2e-7 * abs(v0):
                    bump('monotonicity_below_float32_resolution')
                    if v1 < v0:
                        fail('raising a cost lowers the penalty', 'duccio:decreasing',
                             f'metric={n} cost {before}->{after} target={t} value {v0}->{v1}')
                elif not v1 > v0:
                    fail('raising a cost that is above target does not raise the penalty', 'duccio:not-increasing',
                         f'metric={n} cost {before}->{after} target={t} value {v0}->{v1}')
            elif after <= t:
                if v1 != v0:
                    fail('raising a cost that stays at or below target changes the penalty', 'duccio:changed-below-target',
                         f'metric={n} cost {before}->{after} target={t} value {v0}->{v1}')
    # ---- the caller's own tensors must come back untouched ----------------------------------------
    for n_, t0_ in targets0.items():
        if float(targets[n_]) != t0_:
            fail('DUCCIO modified the caller\'s target tensor', 'duccio:caller-tensor-modified',
                 f'target {n_}: {t0_} -> {float(targets[n_])}')
    if case['mode'] == 'given':
        for s0_, st_ in zip(case['final_strengths'], given):
            if not _close(float(st_), float(torch.tensor(float(s0_))), rtol=0, atol=0):
                fail('DUCCIO modified the caller\'s final-strength tensor', 'duccio:caller-tensor-modified',
                     f'strength {float(torch.tensor(float(s0_)))} -> {float(st_)}')
    # ---- history oracle ------------------------------------------------------------------------
    if precond and history:
        by_metric = {}
        for (i, e, nm, s_obs, s_fin, n_call) in history:
            by_metric.setdefault((nm, n_call), []).append((e, s_obs, s_fin, i))
        for (n, n_ep_h), lst in by_metric.items():
            for (e, s_obs, s_fin, i) in lst:
                if s_obs > s_fin * (1 + 2e-4):
                    fail('effective strength exceeds the final strength', 'history:above-final',
                         f'metric={n} epoch={e}/{n_ep_h} strength={s_obs} final={s_fin}')
                if e == 0 and not _close(s_obs, s_fin / 100.0, rtol=2e-4):
                    fail('effective strength at epoch 0 is not 1% of the final strength', 'history:start',
                         f'metric={n} strength={s_obs} final={s_fin}')
                if e >= n_ep_h / 2.0 and not _close(s_obs, s_fin, rtol=2e-4):
                    fail('effective strength has not reached the final strength at half the schedule',
                         'history:half', f'metric={n} epoch={e}/{n_ep_h} strength={s_obs} final={s_fin}')
            srt = sorted(lst)
            for (e1, s1, _, i1), (e2, s2, _, i2) in zip(srt, srt[1:]):
                bump('history_pairs')
                if e1 < e2 and s1 > s2 * (1 + 2e-4):
                    fail('effective strength is not monotone in the epoch', 'history:not-monotone',
                         f'metric={n} epoch {e1}->{e2} strength {s1}->{s2} (calls {i1},{i2})')
                if e1 == e2 and not _close(s1, s2, rtol=2e-4):
                    fail('effective strength at the same epoch differs between calls', 'history:same-epoch',
                         f'metric={n} epoch {e1} strength {s1} vs {s2} (calls {i1},{i2})')
    span = (max(epochs_seen) - min(epochs_seen) + 1) if epochs_seen else 0
    shape = json.dumps([case['kind'], len(names), case['mode'], n_ep,
                        [case['metrics'][n]['place'] for n in names],
                        [[o['op'], o.get('epoch'), o.get('next'), o.get('name'), o.get('factor'), o.get('n'), o.get('default_call'), o.get('j')] for o in case['ops']]])
    return {'failures': failures, 'events': events, 'stats': stats, 'steps': steps,
            'nontrivial': nontrivial and precond,
            'shape': hashlib.sha256(shape.encode()).hexdigest(), 'sim_time': span}
