"""C10 — what is evaluated, what is reported and what is exported are the same choice.

Simulated system: a search script on an MPS or SuperNet model issuing option updates, mode switches,
coefficient updates (optimizer steps or direct writes with a guaranteed top-2 gap), forward passes,
aborted forwards and crash/restart. Forward hooks on every quantizer / combiner capture the coefficients
as actually used in each forward pass; after eval forwards and at the end, summary() and export() are
compared with the arg-max of the raw coefficients (DESIGN.md §2/C10).
"""
import json
from sim.prng import Stream, mix, torch_seed
from sim import sched

ID = 'C10'
RULE = ('a case = (MPS per-layer/per-channel incl. 0-bit, or SuperNet with 2-8 branches; sampling options) x a history of '
        '3-14 (thorough: up to 24) ops over {coefficient writes with top-2 gap >= 0.05, full option updates, mode switches, '
        'forwards, training steps, aborted forwards, crash/restart}; distinct = distinct normalised (method, options, '
        'architecture features, op-label sequence); non-trivial = coefficients were changed away from their initial values '
        'and afterwards at least one forward pass was monitored and one summary/export comparison evaluated')
ASSUMPTIONS = [
    'a decision is checked for arg-max agreement only if its two largest raw coefficients differ by >= 0.05 (the '
    "statement's no-ties precondition); others are counted as skipped_tie",
    'with disable_sampling=True nothing is sampled: the reference only requires that a forward pass leaves the stored '
    'coefficients bit-identical',
    'option updates in this check always pass every option explicitly (partial updates are C11); numerical equality of '
    'outputs is C02/C03 and not checked here; whether export() succeeds at all is not checked here',
]
COMPONENTS = {'MPS / SuperNet wrappers, quantizer samplers, combiners, summary, export': 'real',
              'sampling-mode reference (which clause applies to a monitored sample)': 'reference model (ours)',
              'search script, aborts, crash/restart': 'simulated'}
SIM_TIME_UNIT = 'ops of the simulated search script'

BASE_WEIGHTS = {'ckpt': 0.8, 'train_step': 3, 'forward_only': 4, 'perturb_arch': 4, 'set_mode': 3, 'softmax_opts': 3.5}


def budget(tier):
    return {'runs': 4000, 'seconds': 75} if tier == 'quick' else {'runs': 200000, 'seconds': 1500}


def generate(seed, run, tier):
    sw = Stream(seed, ID, run, 'swarm')
    ra = Stream(seed, ID, run, 'arch')
    rs = Stream(seed, ID, run, 'schedule')
    rf = Stream(seed, ID, run, 'faults')
    if sw.chance(0.45):
        from sim import arch
        cfg = sched.gen_cfg(sw, ra, methods=('sn',), weights=(1,))
        # wider choice blocks for this property (2..8 branches)
        if sw.chance(0.5):
            cfg['spec'] = arch.gen_supernet(ra, max_branches=8)
    else:
        cfg = sched.gen_cfg(sw, ra, methods=('mps',), weights=(1,))
        if sw.chance(0.25) and 'exclude_names' not in cfg['ctor'] and 'qinfo' not in cfg['ctor']:
            # wider layers for this property: per-channel coefficient matrices up to 8 x 16
            from sim import arch
            cfg['spec'] = arch.gen_mps(ra, max_c=16)
    enabled = {k: (w if sw.chance(0.85) else 0) for k, w in BASE_WEIGHTS.items()}
    enabled['forward_only'] = BASE_WEIGHTS['forward_only']
    enabled['perturb_arch'] = BASE_WEIGHTS['perturb_arch']
    swarm = {'aborts': sw.chance(0.3)}
    p_observer = sw.choice([0.0, 0.1, 0.25])
    n = sw.randint(3, 14 if tier == 'quick' else 24)
    ops = []
    for _ in range(n):
        op = sched.gen_base_op(cfg, rs, enabled, swarm)
        if op['op'] == 'perturb_arch':
            op['style'] = rs.choice(['gap', 'gap', 'gap_large'])
            op['write'] = rs.choice(['copy', 'copy', 'data', 'data_copy'])
        if rs.chance(p_observer):
            # summary / export / cost reads happen at arbitrary moments of a search (e.g. between eval()
            # and the first eval forward)
            ops.append({'op': rs.choice(['export', 'summary', 'cost', 'export'])})
        if op['op'] == 'softmax_opts':
            kw = {'temperature': rs.choice([0.05, 20.0]) if rs.chance(0.2) else
                  (rs.choice([1, 2, 5, 10, 20]) if rs.chance(0.15) else round(rs.loguniform(0.05, 20.0), 4)),
                  'hard': rs.chance(0.5)}
            if cfg['method'] == 'mps':
                kw['gumbel'] = rs.chance(0.4)
                kw['disable_sampling'] = rs.chance(0.15)
            op['kw'] = kw
        ops.append(op)
        if op['op'] == 'perturb_arch' and rs.chance(0.5):
            ops.append({'op': 'set_mode', 'mode': 'eval'})
            ops.append({'op': 'forward_only', 'no_grad': True})
    if rf.chance(0.25):
        ops.insert(rf.randint(0, len(ops)), {'op': 'crash_restart', 'stale_example': rf.chance(0.3)})
    rk = Stream(seed, ID, run, 'best_ckpt')
    if rk.chance(0.15):
        # "keep the best checkpoint, go on under other sampling options, restore it": the checkpoint was written under
        # other options than the ones in force when it is loaded back; the next passes are monitored
        i = rk.randint(0, len(ops))
        kw = {'temperature': round(rk.loguniform(0.05, 20.0), 4), 'hard': rk.chance(0.5)}
        if cfg['method'] == 'mps':
            kw['gumbel'] = rk.chance(0.5)
            kw['disable_sampling'] = rk.chance(0.3)
        tail = [{'op': 'save_ckpt'}, {'op': 'softmax_opts', 'kw': kw}]
        if rk.chance(0.5):
            tail.append({'op': 'forward_only', 'no_grad': True})
        tail.append({'op': 'load_ckpt'})
        for m_ in rk.sample(['train', 'eval'], 2):
            tail += [{'op': 'set_mode', 'mode': m_}, {'op': 'forward_only', 'no_grad': True}]
        ops[i:i] = tail
    ops = sched.add_bystanders(cfg, ops, Stream(seed, ID, run, 'bystanders'), p=0.12)
    ops = sched.add_mode_scopes(cfg, ops, Stream(seed, ID, run, 'mixed_mode'))
    return {'cfg': cfg, 'ops': ops, 'run_seed': mix(seed, ID, run, 'run')}


def sample_view(case):
    from sim.props.c17 import sample_view as sv
    return sv(case)


def shrink_candidates(case):
    from sim.props.c17 import shrink_candidates as sc
    yield from sc(case)


# ----------------------------------------------------------------------------------------------
def execute(case):
    import torch
    from sim import world as W
    from sim.twin import op_label, shape_of
    from plinio.methods.mps.nn.qtz import MPSBaseQtz, MPSPerChannelQtz
    from plinio.methods.mps.nn.module import MPSModule
    from plinio.methods.supernet.nn.combiner import SuperNetCombiner

    cfg = case['cfg']
    method = cfg['method']
    run_seed = case['run_seed']
    ctor = cfg.get('ctor', {})
    events, failures, stats = [], [], {}
    GAP = 0.05

    def bump(k, n=1):
        stats[k] = stats.get(k, 0) + n

    def fail(clause, what, msg, culprit):
        if not failures:
            failures.append({'clause': clause, 'sig': f'{method}:{culprit}:{what}', 'msg': msg})

    rep = W.Replica(cfg, torch_seed(run_seed, 'build'), 'S')
    if method == 'mps':
        opts = {'temperature': float(ctor.get('temperature', 1.0)), 'hard': bool(ctor.get('hard_softmax', False)),
                'gumbel': bool(ctor.get('gumbel_softmax', False)),
                'disable_sampling': bool(ctor.get('disable_sampling', False))}
    else:
        f = cfg['spec']['feats']
        opts = {'temperature': 1.0, 'hard': bool(f['hard']), 'gumbel': bool(f['gumbel']), 'disable_sampling': False}

    from sim import core
    known = core.known_keys(ID)
    known_suppressed = {}
    captured = []
    handles = []

    def install():
        for h in handles:
            h.remove()
        handles.clear()
        for n, q in rep.model.named_modules():
            if isinstance(q, (MPSBaseQtz, SuperNetCombiner)):
                def pre(mod, inp, _n=n):
                    mod.__dict__['_c10_before'] = mod.theta_alpha
                    mod.__dict__['_c10_before_val'] = mod.theta_alpha.detach().clone()

                def post(mod, inp, out, _n=n):
                    captured.append((_n, mod.theta_alpha.detach().clone(), mod.alpha.detach().clone(),
                                     bool(mod.training), mod.__dict__.get('_c10_before_val')))
                handles.append(q.register_forward_pre_hook(pre))
                handles.append(q.register_forward_hook(post))
    install()

    def top2_gap(alpha):
        if alpha.shape[0] < 2:
            return torch.full(alpha.shape[1:], float('inf'))
        t = alpha.topk(2, dim=0).values
        return t[0] - t[1]

    def onehot_of(alpha):
        idx = torch.argmax(alpha, dim=0)
        oh = torch.nn.functional.one_hot(idx, num_classes=alpha.shape[0]).float()
        return oh.t() if alpha.dim() > 1 else oh

    def check_samples(culprit, tag):
        for (n, theta, alpha, training, before) in captured:
            if failures:
                break
            if opts['disable_sampling']:
                bump('samples_sampling_disabled')
                if before is not None and not torch.equal(theta, before):
                    fail('with sampling disabled a forward pass changed the stored coefficients', 'disabled-changed',
                         f'{tag}: {n}: before {before.flatten()[:4].tolist()} after {theta.flatten()[:4].tolist()}', culprit)
                if not training:
                    bump('probe_eval_forward_on_frozen_coefficients')
                continue
            if not bool(torch.isfinite(alpha).all()):
                bump('samples_skipped_nonfinite_coefficients')      # the statement covers finite values only
                continue
            bump('samples_checked')
            if theta.shape != alpha.shape:
                fail('sampled coefficients do not have the shape of the raw ones', 'shape', f'{tag}: {n}', culprit)
                continue
            # probability vector
            if bool(torch.any(theta < -1e-6)) or bool(torch.any(torch.isnan(theta))):
                fail('sampled coefficients are negative or NaN', 'negative', f'{tag}: {n}: {theta.flatten()[:6].tolist()}', culprit)
                continue
            sums = theta.sum(dim=0)
            if not torch.allclose(sums, torch.ones_like(sums), atol=1e-5):
                fail('sampled coefficients do not sum to one', 'sum', f'{tag}: {n}: sums {sums.flatten()[:4].tolist()} '
                     f'theta {theta.flatten()[:6].tolist()}', culprit)
                continue
            is_onehot = bool(torch.all((theta == 0) | (theta == 1)))
            gap = top2_gap(alpha)
            must_argmax = (not training) or (opts['hard'] and not opts['gumbel'])
            if must_argmax:
                want = onehot_of(alpha)
                okmask = gap >= GAP
                n_skip = int((~okmask).sum()) if okmask.dim() else int(not bool(okmask))
                if n_skip:
                    bump('skipped_tie', n_skip)
                sel = theta if theta.dim() == 1 else theta[:, okmask]
                wsel = want if want.dim() == 1 else want[:, okmask]
                if theta.dim() == 1 and not bool(okmask):
                    continue
                bump('argmax_onehot_checks_eval' if not training else 'argmax_onehot_checks_hard_train')
                if not torch.equal(sel, wsel):
                    what = 'hard-not-onehot-argmax'
                    if not training:
                        # classification is independent of the known-findings file: a sample that is the plain soft
                        # mixture softmax(alpha / T) is one class, anything else (stale, noisy, ...) another
                        soft = torch.softmax(alpha / opts['temperature'], dim=0)
                        is_soft = theta.shape == soft.shape and torch.allclose(theta, soft, rtol=1e-4, atol=1e-6)
                        what = 'eval-not-onehot-argmax' if is_soft else 'eval-neither-onehot-nor-softmax'
                        if is_soft and f'{method}:{what}' in known and not opts['hard']:
                            # known finding (KNOWN_FINDINGS.txt): skip exactly this comparison and count it
                            known_suppressed[f'{method}:{what}'] = known_suppressed.get(f'{method}:{what}', 0) + 1
                            continue
                    fail('in eval mode / hard non-Gumbel training the sampled coefficients are not the one-hot at the '
                         'largest raw coefficient', what,
                         f'{tag}: {n}: raw {alpha.flatten()[:6].tolist()} T={opts["temperature"]} sampled '
                         f'{theta.flatten()[:6].tolist()}', culprit)
            elif opts['gumbel'] and opts['hard']:
                bump('gumbel_hard_onehot_checks')
                if not is_onehot:
                    fail('hard Gumbel sampling did not give a one-hot vector', 'gumbel-hard-not-onehot',
                         f'{tag}: {n}: {theta.flatten()[:6].tolist()}', culprit)
            else:
                bump('soft_probability_vector_checks')
        captured.clear()

    # ---- summary / export vs arg-max of the raw coefficients -----------------------------------------
    def expected_prec(q):
        a = q.alpha.detach()
        prec = q.precision
        g = top2_gap(a)
        idx = torch.argmax(a, dim=0)
        if a.dim() == 1:
            return (int(prec[int(idx)]), bool(g >= GAP))
        return ([int(prec[int(i)]) for i in idx], [bool(x) for x in (g >= GAP)])

    def verify_selection(culprit, tag):
        m = rep.model
        bump('selection_verifications')
        summ = W.guarded(lambda: m.summary())
        if isinstance(summ, dict) and '__raised' in summ:
            fail('summary() raised', 'summary-raises', f"{tag}: {summ}", culprit)
            return
        exported = W.guarded(lambda: m.export())
        exp_ok = not (isinstance(exported, dict) and '__raised' in exported)
        if not exp_ok:
            bump('export_raised_not_checked')
        if method == 'mps':
            for lname, layer in m.seed.named_modules():
                if not isinstance(layer, MPSModule) or failures:
                    continue
                s = summ.get(lname)
                if s is None:
                    continue
                parts = [('out_precision', 'out_mps_quantizer', 'out_quantizer')]
                if hasattr(layer, 'w_mps_quantizer'):
                    parts += [('w_precision', 'w_mps_quantizer', 'w_quantizer'),
                              ('in_precision', 'in_mps_quantizer', 'in_quantizer')]
                el = None
                if exp_ok:
                    try:
                        el = exported.get_submodule(lname)
                    except AttributeError:
                        el = None
                for key, qname, ename in parts:
                    q = getattr(layer, qname)
                    want, ok = expected_prec(q)
                    got = s.get(key)
                    if isinstance(want, list):
                        cmp = [(w, g) for w, g, o in zip(want, got, ok) if o]
                        bump('skipped_tie', sum(1 for o in ok if not o))
                        bump('summary_checks')
                        if any(w != g for w, g in cmp):
                            fail('summary() does not report the arg-max precision of the raw coefficients',
                                 'summary-not-argmax', f'{tag}: {lname}.{key}: summary {got} arg-max {want}', culprit)
                        if el is not None and all(ok):
                            from collections import Counter
                            wantc = Counter(want)
                            subs = list(el) if hasattr(el, '__iter__') else [el]
                            gotc = Counter()
                            for sub in subs:
                                gotc[int(sub.w_quantizer.precision)] += int(sub.out_channels if hasattr(sub, 'out_channels') else sub.out_features)
                            bump('export_checks')
                            if dict(wantc) != dict(gotc):
                                fail('export() does not materialise the arg-max precision of every channel',
                                     'export-not-argmax', f'{tag}: {lname}: exported {dict(gotc)} arg-max {dict(wantc)}', culprit)
                    else:
                        if not ok:
                            bump('skipped_tie')
                            continue
                        bump('summary_checks')
                        if got != want:
                            fail('summary() does not report the arg-max precision of the raw coefficients',
                                 'summary-not-argmax', f'{tag}: {lname}.{key}: summary {got} arg-max {want}', culprit)
                        if el is not None:
                            subs = list(el) if (hasattr(el, '__iter__') and not hasattr(el, ename)) else [el]
                            for sub in subs:
                                eq = getattr(sub, ename, None)
                                if eq is None:
                                    continue
                                bump('export_checks')
                                if int(eq.precision) != want:
                                    fail('export() does not materialise the arg-max precision',
                                         'export-not-argmax', f'{tag}: {lname}.{ename}: exported {eq.precision} arg-max {want}',
                                         culprit)
        else:
            for cname, comb in m.seed.named_modules():
                if not isinstance(comb, SuperNetCombiner) or failures:
                    continue
                a = comb.alpha.detach()
                if float(top2_gap(a)) < GAP:
                    bump('skipped_tie')
                    continue
                best = int(torch.argmax(a))
                s = summ.get(cname)
                if s is not None:
                    vals = [s['supernet_branches'][f'branch_{i}']['alpha'] for i in range(comb.n_branches)]
                    rep_best = max(range(len(vals)), key=lambda i: vals[i])
                    n_max = sum(1 for v in vals if v == vals[rep_best])
                    bump('summary_checks')
                    if rep_best != best or n_max != 1:
                        fail('summary() does not single out the branch with the largest raw coefficient',
                             'summary-not-argmax', f'{tag}: {cname}: reported {vals} raw {a.tolist()}', culprit)
                if exp_ok:
                    parent = cname.rsplit('.', 1)[0]
                    prefix = parent + '.sn_branches.'
                    kept = set()
                    for n, _ in exported.named_modules():
                        if n.startswith(prefix):
                            kept.add(int(n[len(prefix):].split('.')[0]))
                    bump('export_checks')
                    if kept != {best}:
                        # an Identity winner leaves no module behind
                        if not (kept == set() and type(m.seed.get_submodule(prefix + str(best))).__name__ == 'Identity'):
                            fail('export() does not keep exactly the branch with the largest raw coefficient',
                                 'export-not-argmax', f'{tag}: {cname}: kept branches {sorted(kept)} arg-max {best} raw {a.tolist()}',
                                 culprit)

    def reported_options(model):
        out = {}
        for n_, q in model.named_modules():
            if isinstance(q, MPSBaseQtz):
                try:
                    out[n_] = (bool(q.hard_softmax), bool(q.gumbel_softmax), bool(q.disable_sampling))
                except AttributeError:
                    return None
        return out

    def adopt_reported_options(why, before):
        """a load is not a sampling-option call, but a library that persists the options in the state_dict changes
        them legitimately on load. `before`: what every quantizer reported (hard_softmax, gumbel_softmax,
        disable_sampling) right before the load. If the load changed what some quantizers report and all of those now
        agree, the reference adopts the reported values - the samplers are then held against what the model itself
        says. On the pinned tree a load never changes them. (Quantizers the model-level option calls never reach -
        the placeholder in front of the input quantizer - report their construction defaults throughout.)"""
        if method != 'mps' or before is None:
            return
        after = reported_options(rep.model)
        if after is None:
            return
        changed = {after[n_] for n_ in after if n_ in before and after[n_] != before[n_]}
        if len(changed) != 1:
            return
        h_, g_, d_ = next(iter(changed))
        if (h_, g_, d_) != (opts['hard'], opts['gumbel'], opts['disable_sampling']):
            bump('options_adopted_from_what_the_model_reports_after_' + why)
            opts['hard'], opts['gumbel'], opts['disable_sampling'] = h_, g_, d_

    saved_temperature = [None]
    seen_replaced = [0]
    last_ctrl = 'construction'
    perturbed = False
    monitored_after_perturb = False
    verified_after_perturb = False
    steps = 0
    for idx, op in enumerate(case['ops']):
        if failures:
            break
        steps += 1
        k = op['op']
        lab = op_label(op)
        if k == 'crash_restart':
            bump('fault_crash_restart')
            try:
                rep.crash_restart(torch_seed(run_seed, 'rebuild', idx), stale_example=op.get('stale_example', False))
            except Exception:
                bump('restart_raised')
                break
            install()
            last_ctrl = 'restart'
            adopt_reported_options('restart', reported_options(rep.ghost) if rep.ghost is not None else None)
            events.append(f'{idx} crash_restart')
            continue
        if k == 'save_ckpt':
            saved_temperature[0] = opts['temperature']
        if k == 'load_ckpt' and method == 'mps' and saved_temperature[0] is not None:
            opts['temperature'] = saved_temperature[0]      # MPS keeps its temperature in a buffer: it comes back
        if k == 'softmax_opts':
            for kk, vv in op['kw'].items():
                opts[kk] = float(vv) if kk == 'temperature' else bool(vv)
            last_ctrl = 'softmax_opts'
        if k == 'set_mode':
            last_ctrl = lab
        captured.clear()
        reported_before = reported_options(rep.model) if (k == 'load_ckpt' and method == 'mps') else None
        try:
            obs = W.apply_op(rep, op, idx, run_seed)
        except Exception as e:
            bump('op_raised_' + type(e).__name__)
            events.append(f'{idx} {lab} raised {type(e).__name__}: {str(e)[:80]}')
            break
        if obs.get('aborted'):
            bump('fault_abort_forward')
        if k == 'load_ckpt':
            adopt_reported_options('load', reported_before)
            last_ctrl = 'load_ckpt'
        if getattr(rep, 'objects_replaced', 0) != seen_replaced[0]:
            seen_replaced[0] = rep.objects_replaced
            install()                            # deepcopy / load_state_dict(assign=True): hooks go on the new objects
            captured.clear()
            bump('model_objects_replaced')
        if k == 'perturb_arch' or (k == 'train_step' and op.get('which') in ('nas', 'both') and not obs.get('aborted')):
            perturbed = True
        n_cap = len(captured)
        if n_cap:
            bump('monitored_forwards')
            if perturbed:
                monitored_after_perturb = True
        check_samples(last_ctrl, f'op {idx} {lab}')
        if k == 'forward_only' and not obs.get('aborted') and not rep.model.training and not failures:
            verify_selection(last_ctrl, f'after op {idx} {lab}')
            captured.clear()
            if perturbed:
                verified_after_perturb = True
        events.append(f'{idx} {lab} opts={opts} samples={n_cap} reads={W.reads_digest(W.pure_reads(rep.model))}')
    if not failures:
        verify_selection(last_ctrl, 'at the end')
        if perturbed:
            verified_after_perturb = True
    for h in handles:
        h.remove()
    return {'failures': failures, 'events': events, 'stats': stats, 'steps': steps,
            'nontrivial': bool(perturbed and monitored_after_perturb and verified_after_perturb),
            'shape': shape_of(case), 'sim_time': steps, 'known_suppressed': known_suppressed}
