"""C17 — a checkpointed search resumes to an observationally identical model.

Twin simulation: R runs a seeded training/configuration schedule; S runs the same schedule but
crashes at seeded points: only the bytes of state_dict() survive, the process is rebuilt under other
process-level randomness (weights, input example), the script's configuration calls are re-issued
("config is code, state is data") and the bytes are loaded with strict key checking.
"""
import json
from sim.prng import Stream, mix
from sim import sched

ID = 'C17'
RULE = ('a case = (grammar architecture x method PIT/MPS/SuperNet x constructor options x cost spec) x a schedule '
        'of 3-14 (thorough: up to 24) state/config ops x 1-3 crash_restart faults; thorough additionally re-runs '
        'sampled schedules once per crash position. distinct = distinct normalised (method, options, architecture '
        'features, op-label sequence incl. crash positions); non-trivial = a crash fired after at least one '
        'state-changing op and before at least one evaluated comparison against the never-crashed reference')
ASSUMPTIONS = [
    'restart protocol "config is code, state is data": the restarted script re-issues its own configuration calls '
    '(modes, train_* groups, PIT flags, hard/gumbel/disable_sampling, SuperNet temperature, cost specification); '
    'everything changed by training must arrive through the state_dict bytes; MPS temperature is NOT re-issued '
    '(the code registers it as a buffer)',
    'pending gradients are volatile: a crash between backward and optimizer step drops them on the reference too',
    'float observations compared with rtol 1e-5 / atol 1e-6, discrete ones exactly',
    'optimizer is plain SGD without momentum (no optimizer state to checkpoint)',
]
COMPONENTS = {'PIT / MPS / SuperNet wrappers, all searchable layers, export, summary, cost, torch state_dict/save/load': 'real',
              'seed networks': 'generated from a grammar (plain torch.nn + SuperNetModule)',
              'training loop, process boundary, disk (in-memory bytes)': 'simulated'}
SIM_TIME_UNIT = 'ops of the simulated training loop'


def budget(tier):
    return {'runs': 4000, 'seconds': 75} if tier == 'quick' else {'runs': 200000, 'seconds': 1500}


BASE_WEIGHTS = {'observer': 1.2, 'ckpt': 0.8, 'train_burst': 0.8, 'train_step': 6, 'backward_only': 1.5, 'opt_step': 1.5, 'forward_only': 2, 'perturb_arch': 2, 'perturb_net': 1.0,
                'set_mode': 1.5, 'train_group': 1.5, 'set_flag': 1, 'softmax_opts': 2, 'set_cost_spec': 0.6,
                'read_cost': 0.7, 'read_summary': 0.3}


def generate(seed, run, tier):
    # thorough: one schedule per block is systematically re-run with a single crash at each position
    base_run = run
    crash_pos = None
    if tier == 'thorough':
        block = 48       # 8 ordinary runs + the schedule of slot 7 re-run with one crash at each of 40 positions
        blk, off = divmod(run, block)
        if off >= 8:
            base_run = blk * block + 7       # the schedule of slot 7 of this block
            crash_pos = off - 8
    sw = Stream(seed, ID, base_run, 'swarm')
    ra = Stream(seed, ID, base_run, 'arch')
    rs = Stream(seed, ID, base_run, 'schedule')
    rf = Stream(seed, ID, base_run, 'faults')
    cfg = sched.gen_cfg(sw, ra)
    enabled = {k: (w if sw.chance(0.75) else 0) for k, w in BASE_WEIGHTS.items()}
    enabled['train_step'] = BASE_WEIGHTS['train_step']
    swarm = {'aborts': sw.chance(0.4)}
    n = sw.randint(3, 14 if tier == 'quick' else 24)
    ops = []
    for _ in range(n):
        op = sched.gen_base_op(cfg, rs, enabled, swarm)
        ops.append(op)
        if op['op'] == 'backward_only' and rs.chance(0.7):
            ops.append({'op': 'opt_step', 'which': op['which'], 'lr': op['lr']})
    ops = sched.add_mode_scopes(cfg, ops, Stream(seed, ID, base_run, 'mixed_mode'))
    if crash_pos is not None and crash_pos > len(ops):
        # all positions of this schedule are already enumerated: use the slot for an ordinary seeded run
        return generate(seed, run + 10 ** 7, 'quick_from_thorough')
    if crash_pos is not None:
        pos = [crash_pos]
    elif sw.chance(0.05):
        pos = list(range(len(ops) + 1))         # crash storm: a restart at every op boundary
    else:
        ncr = rf.wchoice([(1, 5), (2, 3), (3, 1)])
        pos = sorted(rf.randint(0, len(ops)) for _ in range(ncr))
        if rf.chance(0.25):
            # bias: land between backward_only and opt_step, or right after a config op
            cand = [i + 1 for i, o in enumerate(ops) if o['op'] in ('backward_only', 'softmax_opts', 'set_flag',
                                                                    'set_mode', 'perturb_arch')]
            if cand:
                pos[0] = rf.choice(cand)
                pos.sort()
        if rf.chance(0.15):
            pos.append(pos[-1])      # double restart with nothing in between
    out = []
    for i in range(len(ops) + 1):
        for p in pos:
            if p == i:
                cr = {'op': 'crash_restart', 'stale_example': rf.chance(0.3)}
                if Stream(seed, ID, base_run, 'resume_order', i, len(out)).chance(0.3) and \
                        not any(o['op'] == 'load_ckpt' for o in ops):
                    # (only in histories without a load into the live model: if a library keeps an option in the
                    # state_dict, an earlier load may have put back an older value than the script's last call, and
                    # re-issuing the calls after the load would then override state - a script bug, not a library one)
                    cr['config_after_load'] = True
                if rf.chance(0.25):
                    # the restarted script looks at the fresh wrapper before it loads the checkpoint
                    cr['prologue'] = [{'op': rf.choice(['summary', 'str', 'cost', 'export', 'nograd_eval_forward'])}
                                      for _ in range(rf.randint(1, 2))]
                out.append(cr)
        if i < len(ops):
            out.append(ops[i])
    out = sched.add_bystanders(cfg, out, Stream(seed, ID, base_run, 'bystanders'))
    return {'cfg': cfg, 'ops': out, 'run_seed': mix(seed, ID, base_run, 'run')}


def sample_view(case):
    c = dict(case)
    cfg = dict(c['cfg'])
    spec = cfg['spec']
    cfg['spec'] = {'in_shape': spec['in_shape'], 'n_out': spec['n_out'], 'feats': spec.get('feats'),
                   'mods': {k: v['t'] for k, v in spec['mods'].items()}}
    c['cfg'] = cfg
    c['ops'] = [dict(o, cfg='<%s architecture>' % o['cfg']['method']) if o['op'] == 'bystander' else o for o in c['ops']]
    return c


def shrink_candidates(case):
    from sim.core import ddmin_ops
    yield from ddmin_ops(case)
    # simplify constructor options
    for k in list(case['cfg'].get('ctor', {})):
        c = json.loads(json.dumps(case))
        c['cfg']['ctor'].pop(k)
        yield c
    if case['cfg'].get('seed_in_eval'):
        c = json.loads(json.dumps(case))
        c['cfg'].pop('seed_in_eval')
        yield c
    if not case['cfg']['cost'].startswith('single'):
        c = json.loads(json.dumps(case))
        c['cfg']['cost'] = 'single:' + case['cfg']['cost'].split(':')[1].split('+')[0]
        c['ops'] = [o for o in c['ops'] if o['op'] != 'set_cost_spec']
        yield c
    # simplify ops
    for i, o in enumerate(case['ops']):
        if o['op'] == 'bystander':
            for j in range(len(o['ops'])):
                c = json.loads(json.dumps(case))
                c['ops'][i]['ops'].pop(j)
                yield c
            for k in list(o['cfg'].get('ctor', {})):
                c = json.loads(json.dumps(case))
                c['ops'][i]['cfg']['ctor'].pop(k)
                yield c
        for key in ('abort', 'stale_example', 'mid', 'prologue', 'scope', 'config_after_load'):
            if o.get(key):
                c = json.loads(json.dumps(case))
                c['ops'][i].pop(key)
                yield c


def execute(case):
    from sim import twin
    res = twin.run_twin(case, compare_sections=('params', 'rg', 'flags', 'grads'), probe_forward_first=True,
                        construction_layout='fail')
    return res
