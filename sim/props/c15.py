"""C15 — cost-function lookup depends on the layer, not on registration order.

Simulated system: one CostSpec filled by 2-3 registrant tasks (the "library", a plug-in, a second
plug-in), each with its own program order, interleaved by the seeded scheduler. Lookup tasks
(direct `spec[(type, layer)]` probes, real PIT constructions, cost evaluations and
cost_specification re-assignments) run during and after registration. Oracle: an order-free
reference dictionary (DESIGN.md §2/C15).
"""
import json
from sim.prng import Stream

ID = 'C15'
RULE = ('run indices 0..259 are systematic: every registration order of every subset of the 4 patterns (65 sequences) x '
        '{Conv2d, Conv1d} x both defaults, all 8 probe layers looked up after every registration; the other runs are seeded: '
        'a case = 2 layer types x up to 4 patterns each (unconstrained, depthwise, 3x3, user stride-2) '
        'registered by 2-3 interleaved registrant tasks, with lookups / PIT constructions / cost reads '
        'interleaved; distinct = distinct normalised op list; non-trivial = at least one lookup or PIT '
        'cost was checked against the reference while >=2 patterns of that layer type were registered '
        'in an order other than the library order (unconstrained first)')
ASSUMPTIONS = [
    'two or more matching constrained patterns is "unspecified" per plinio/cost/README.md: KeyError or '
    'any matching constrained function accepted, but it must be the same answer for every registration order',
    'a pattern is registered at most once per specification (re-registration semantics are not stated)',
]
COMPONENTS = {'CostSpec, pattern constraints, built-in specs (params, ops, ...), PIT constructor/cost': 'real',
              'registrant / lookup tasks and their scheduler': 'simulated',
              'order-free dictionary': 'reference model (ours)'}
SIM_TIME_UNIT = 'registry events'

TYPES = ['Conv2d', 'Conv1d', 'Linear']
PATS = ['U', 'DW', 'K3', 'S2']        # unconstrained, depthwise, all-3 kernel, user: stride 2
BUILTINS = ['params', 'params_no_bias', 'ops', 'ops_no_bias', 'gap8_latency']


def budget(tier):
    return {'runs': 8000, 'seconds': 50} if tier == 'quick' else {'runs': 400000, 'seconds': 900}


# ----------------------------------------------------------------------------------------------
def layer_spec(tname, dw, k3, s2):
    """a layer description (what vars(layer) would contain) satisfying exactly the requested subset"""
    nd = 2 if tname == 'Conv2d' else 1
    if tname == 'Linear':
        return {'in_features': 6, 'out_features': 4}
    g = 4 if dw else 1
    return {'in_channels': 4, 'out_channels': 4 if dw else 6, 'groups': g,
            'kernel_size': [3 if k3 else 5] * nd, 'stride': [2 if s2 else 1] * nd}


def _all_sequences():
    import itertools
    seqs = []
    for k in range(0, len(PATS) + 1):
        for sub in itertools.combinations(PATS, k):
            for perm in itertools.permutations(sub):
                seqs.append(list(perm))
    return seqs          # 65 ordered sequences of distinct patterns


def _others(seed, run, case):
    ro = Stream(seed, ID, run, 'other_specs')
    if not ro.chance(0.25):
        return
    ops = case['ops']
    for _ in range(ro.randint(1, 3)):
        regs = [[ro.choice(['Conv2d', 'Conv1d']), ro.choice(PATS), ro.randint(1, 999)] for _ in range(ro.randint(0, 3))]
        looks = [[ro.choice(['Conv2d', 'Conv1d']), ro.chance(0.5), ro.chance(0.5), ro.chance(0.5)]
                 for _ in range(ro.randint(0, 3))]
        pos = ro.randint(0, max(0, len(ops) - 1))       # (never after the final cross-check)
        ops.insert(pos, {'op': 'other_spec', 'j': ro.randint(0, 1), 'default': ro.choice(['zero', 'fail']),
                         'regs': regs, 'lookups': looks})


def _related(seed, run, case):
    """patterns registered for RELATED layer types in the same specification: a base class (nn.Module, _ConvNd) or a
    user's sub-class of a convolution. With exact type matching they never apply to a Conv2d / Conv1d layer; a library
    that also matches sub-classes must still let the layer's own type win, in every registration order."""
    rr = Stream(seed, ID, run, 'related_types')
    if case.get('systematic') or not rr.chance(0.2):
        return
    ops = case['ops']
    for k in range(rr.randint(1, 2)):
        pos = rr.randint(0, max(0, len(ops) - 1))
        ops.insert(pos, {'op': 'reg_related', 'type': rr.choice(['Module', 'ConvNd', 'SubConv2d', 'SubConv1d']),
                         'fid': 900 + k})


def _styles(seed, run, case):
    _others(seed, run, case)
    _related(seed, run, case)
    st = Stream(seed, ID, run, 'constraint_style')
    case['s2_style'] = st.wchoice([('function', 4), ('partial', 2), ('callable', 1.5), ('method', 1), ('lambda', 1.5)])
    if st.chance(0.2):
        case['k3_style'] = 'partial'


def generate(seed, run, tier):
    nseq = 65
    if run < 4 * nseq:
        # systematic part (both tiers): every registration order of every subset of the 4 patterns of one layer
        # type, both default behaviours, with all 8 probe layers looked up after every registration
        seq = _all_sequences()[run % nseq]
        t = 'Conv2d' if (run // nseq) % 2 == 0 else 'Conv1d'
        default = 'zero' if run < 2 * nseq else 'fail'
        ops = []

        def probes():
            for bits in range(8):
                ops.append({'op': 'lookup', 'type': t, 'dw': bool(bits & 1), 'k3': bool(bits & 2), 's2': bool(bits & 4)})
        probes()
        for i, p in enumerate(seq):
            ops.append({'op': 'reg', 'task': i % 2, 'type': t, 'pat': p, 'fid': i + 1})
            probes()
        if t == 'Conv2d':
            ops.append({'op': 'pit', 'net': run % 4, 'default_probe': False})
        ops.append({'op': 'final_cross_check'})
        c = {'default': default, 'ops': ops, 'systematic': True}
        _styles(seed, run, c)
        return c
    rs = Stream(seed, ID, run, 'schedule')
    sw = Stream(seed, ID, run, 'swarm')
    n_types = sw.randint(1, 2)
    types = sw.sample(['Conv2d', 'Conv1d'], n_types)
    if sw.chance(0.4):
        types.append('Linear')
    n_tasks = sw.randint(2, 3)
    p_lookup = sw.choice([0.15, 0.35, 0.6])
    p_pit = sw.choice([0.0, 0.0, 0.08, 0.2])
    adversarial = sw.chance(0.5)
    p_default_fn = sw.choice([0.0, 0.0, 0.15, 0.4])
    p_reuse = sw.choice([0.0, 0.3, 0.8])      # lookups that re-use ONE description dict per layer type, edited in place
    # what each registrant task will register, in its program order
    regs = []
    for t in types:
        pats = ['U'] if t == 'Linear' else sw.sample(PATS, sw.randint(1, 4))
        for p in pats:
            regs.append((t, p))
    tasks = [[] for _ in range(n_tasks)]
    if adversarial:
        # adversarial order: constrained patterns are pushed in front of the unconstrained one
        regs.sort(key=lambda tp: (tp[1] == 'U'))
        for i, tp in enumerate(regs):
            tasks[i % n_tasks].append(tp)
    else:
        rs.shuffle(regs)
        for tp in regs:
            tasks[rs.randint(0, n_tasks - 1)].append(tp)
    ops = []
    fid = 0
    live = [i for i in range(n_tasks) if tasks[i]]
    pcs = [0] * n_tasks

    def add_lookups(k):
        for _ in range(k):
            if rs.chance(p_pit):
                ops.append({'op': 'pit', 'net': rs.randint(0, 3), 'default_probe': rs.chance(0.5)})
            else:
                t = rs.choice(types)
                ops.append({'op': 'lookup', 'type': t, 'dw': rs.chance(0.5), 'k3': rs.chance(0.5),
                            's2': rs.chance(0.4), 'reuse': rs.chance(p_reuse)})
    while live:
        if adversarial and not rs.chance(0.3):
            i = live[0] if len(set(pcs)) == 1 else min(live, key=lambda j: pcs[j])
        else:
            i = rs.choice(live)
        t, p = tasks[i][pcs[i]]
        pcs[i] += 1
        if pcs[i] >= len(tasks[i]):
            live.remove(i)
        fid += 1
        ops.append({'op': 'reg', 'task': i, 'type': t, 'pat': p, 'fid': fid})
        if rs.chance(p_default_fn):
            # the user registers the specification's own default function ("these layers are free" in a zero-default
            # spec, "these layers are unsupported" in a fail-default spec)
            ops[-1]['use_default'] = True
        if rs.chance(p_lookup):
            add_lookups(rs.randint(1, 3))
    add_lookups(rs.randint(2, 6))
    if sw.chance(0.35):
        ops.append({'op': 'builtin_permuted', 'spec': rs.choice(BUILTINS), 'perm_seed': rs.randint(0, 10**6),
                    'net': rs.randint(0, 3)})
    ops.append({'op': 'final_cross_check'})
    c = {'default': sw.choice(['zero', 'fail']), 'ops': ops}
    _styles(seed, run, c)
    return c


def sample_view(case):
    return case


def shrink_candidates(case):
    from sim.core import ddmin_ops
    yield from ddmin_ops(case, keep=lambda op: False)


# ----------------------------------------------------------------------------------------------
_BUILTIN = {}


def _builtin_triples(name):
    """the (layer type, constraint, function) registrations of a built-in specification, in library order, observed
    through the public registration call: the defining module is executed once more in a scratch namespace (sys.modules
    untouched) while CostSpec.__setitem__ is recorded - independent of how CostSpec stores its entries"""
    if name not in _BUILTIN:
        import runpy
        from plinio.cost import CostSpec
        rec = []
        real = CostSpec.__setitem__

        def recording(self, key, fn):
            rec.append((self, key[0], key[1], fn))
            return real(self, key, fn)
        CostSpec.__setitem__ = recording
        try:
            g = runpy.run_module('plinio.cost.' + name)
        finally:
            CostSpec.__setitem__ = real
        spec = g[name]
        out = [(p, c, f) for (s_, p, c, f) in rec if s_ is spec]
        if not out:
            raise LookupError(name)
        _BUILTIN[name] = out
    return _BUILTIN[name]


_NETS = {}


def _pit_net(idx):
    """small 2D networks holding layers that satisfy different subsets of the constraints"""
    import torch.nn as nn

    class Net(nn.Module):
        def __init__(self, variant):
            super().__init__()
            self.c0 = nn.Conv2d(3, 4, 3, padding=1)                       # K3
            self.has_d1 = variant in (1, 3)
            if self.has_d1:
                self.d1 = nn.Conv2d(4, 4, 3, padding=1, groups=4)         # DW & K3
            self.d2 = nn.Conv2d(4, 4, 5, padding=2, groups=4)             # DW
            self.c3 = nn.Conv2d(4, 6, 1)                                  # none
            self.has_c4 = variant in (2, 3)
            if self.has_c4:
                self.c4 = nn.Conv2d(6, 6, 3, stride=2, padding=1)         # K3 & S2
            self.relu = nn.ReLU()
            self.pool = nn.AdaptiveAvgPool2d(1)
            self.lin = nn.Linear(6, 3)

        def forward(self, x):
            x = self.relu(self.c0(x))
            if self.has_d1:
                x = self.d1(x)
            x = self.d2(x)
            x = self.relu(self.c3(x))
            if self.has_c4:
                x = self.c4(x)
            x = self.pool(x).flatten(1)
            return self.lin(x)
    return Net(idx)


def _net_layers(idx):
    """(name, type, dw, k3, s2) of the searchable layers of variant idx"""
    L = [('c0', 'Conv2d', False, True, False)]
    if idx in (1, 3):
        L.append(('d1', 'Conv2d', True, True, False))
    L.append(('d2', 'Conv2d', True, False, False))
    L.append(('c3', 'Conv2d', False, False, False))
    if idx in (2, 3):
        L.append(('c4', 'Conv2d', False, True, True))
    L.append(('lin', 'Linear', False, False, False))
    return L


def execute(case):
    import torch
    import torch.nn as nn
    from plinio.cost import CostSpec
    from plinio.cost import pattern as P
    import plinio.cost as PC
    from plinio.methods import PIT

    tmap = {'Conv2d': nn.Conv2d, 'Conv1d': nn.Conv1d, 'Linear': nn.Linear}

    def s2_constraint(spec):
        s = spec['stride']
        s = s if isinstance(s, (tuple, list)) else (s,)
        return all(si == 2 for si in s)

    # the user's constraint may be any callable: a plain function, a lambda, a functools.partial of a parametrised
    # predicate, an instance of a class with __call__, a bound method (the last three have no __name__/__qualname__)
    def stride_is(spec, value):
        s = spec['stride']
        s = s if isinstance(s, (tuple, list)) else (s,)
        return all(si == value for si in s)

    class StrideIs:
        def __init__(self, value):
            self.value = value

        def __call__(self, spec):
            return stride_is(spec, self.value)

        def check(self, spec):
            return stride_is(spec, self.value)
    style = case.get('s2_style', 'function')
    if style == 'partial':
        import functools
        s2c = functools.partial(stride_is, value=2)
    elif style == 'callable':
        s2c = StrideIs(2)
    elif style == 'method':
        s2c = StrideIs(2).check
    elif style == 'lambda':
        s2c = lambda spec: stride_is(spec, 2)       # noqa: E731
    else:
        s2c = s2_constraint
    bump_style = 'user_constraint_is_' + style
    cmap = {'U': None, 'DW': P.conv_dw_constraint, 'K3': P.conv_3_constraint, 'S2': s2c}
    if case.get('k3_style') == 'partial':
        # a user's own re-statement of a built-in constraint, again as a nameless callable
        import functools
        cmap['K3'] = functools.partial(lambda spec, k: P.conv_3_constraint(spec), k=3)

    events, failures, stats = [], [], {}
    cover = {'pattern_set_and_order': set()}

    def bump(k, n=1):
        stats[k] = stats.get(k, 0) + n

    def fail(clause, sig, msg):
        failures.append({'clause': clause, 'sig': sig, 'msg': msg})

    if case.get('systematic'):
        bump('systematic_registration_sequences')
    bump(bump_style)
    cs = CostSpec(shared=True, default_behavior=case['default'])
    fns = {}          # fid -> function
    ident = {}        # id(function) -> label
    registered = {t: [] for t in TYPES}      # reference: type -> list of (pat, fid) in order
    shared_specs = {}
    default_fids = set()
    ident[id(cs.default)] = 'DEFAULT'

    def mk_fn(fid):
        val = float(2 ** (fid % 20)) + fid * 1e-3

        def fn(spec, _v=val):
            return torch.tensor(_v)
        fn.__name__ = f'fn{fid}'
        return fn, val
    vals = {}

    def expected(tname, dw, k3, s2):
        """order-free reference: returns (kind, set of acceptable labels, keyerror_allowed)"""
        sat = {'DW': dw, 'K3': k3, 'S2': s2}
        regs = registered[tname]
        M = [fid for (p, fid) in regs if p != 'U' and tname != 'Linear' and sat[p]]
        U = [fid for (p, fid) in regs if p == 'U']
        lab = lambda f: 'DEFAULT' if f in default_fids else f      # noqa: E731  (same object as the default)
        if len(M) == 1:
            return 'M1', {lab(M[0])}, False
        if len(M) == 0:
            if U:
                return 'M0U', {lab(U[-1])}, False
            return 'M0D', {'DEFAULT'}, False
        return 'M2', {lab(f) for f in M}, True

    def noncanonical(tname):
        regs = registered[tname]
        return len(regs) >= 2 and regs[0][0] != 'U'

    nontrivial = False
    steps = 0
    other_specs = {}
    related = []          # (related type name, fid) registered on the specification under test

    class SubConv2d(nn.Conv2d):
        pass

    class SubConv1d(nn.Conv1d):
        pass
    related_types = {'Module': nn.Module, 'ConvNd': nn.modules.conv._ConvNd, 'SubConv2d': SubConv2d,
                     'SubConv1d': SubConv1d}
    for i, op in enumerate(case['ops']):
        steps += 1
        kind = op['op']
        if kind == 'reg_related':
            fn, val = mk_fn(op['fid'])
            ident[id(fn)] = op['fid']
            fns[op['fid']] = fn
            cs[(related_types[op['type']], None)] = fn
            related.append((op['type'], op['fid']))
            bump('fault_pattern_registered_for_a_related_layer_type')
            events.append(f"{i} reg related type {op['type']} -> fn{op['fid']}")
            continue
        if kind == 'other_spec':
            # ANOTHER specification object of the same process (a second hardware target, an earlier experiment) is
            # filled and queried in between: the specification under test must not notice
            bump('fault_other_specification_object_used')
            j = op['j']
            if j not in other_specs:
                other_specs[j] = CostSpec(shared=bool(j % 2), default_behavior=op['default'])
            osp = other_specs[j]
            for (t_, p_, v_) in op['regs']:
                osp[(tmap[t_], cmap[p_])] = (lambda spec, _v=v_: torch.tensor(float(_v)))
            for (t_, dw_, k3_, s2_) in op['lookups']:
                try:
                    osp[(tmap[t_], layer_spec(t_, dw_, k3_, s2_))]
                except KeyError:
                    pass
            events.append(f"{i} other specification #{j}: {len(op['regs'])} registrations, {len(op['lookups'])} lookups")
            continue
        if kind == 'reg':
            fn, val = mk_fn(op['fid'])
            if op.get('use_default'):
                fn, val = cs.default, 0.0
                default_fids.add(op['fid'])
                bump('registrations_of_the_default_function')
            else:
                ident[id(fn)] = op['fid']
            fns[op['fid']] = fn
            vals[op['fid']] = val
            cs[(tmap[op['type']], cmap[op['pat']])] = fn
            registered[op['type']].append((op['pat'], op['fid']))
            bump('registrations')
            if op['pat'] == 'U' and len(registered[op['type']]) > 1:
                bump('fault_unconstrained_registered_after_constrained')
            events.append(f"{i} reg task{op['task']} {op['type']}/{op['pat']} -> fn{op['fid']}")
        elif kind == 'lookup':
            tname = op['type']
            spec = layer_spec(tname, op['dw'], op['k3'], op['s2'])
            if op.get('reuse'):
                # the same dict object is edited in place between lookups (vars(layer) of a live layer is such an
                # object): the answer must depend on its content now, not on what it held at an earlier lookup
                shared = shared_specs.setdefault(tname, {})
                shared.clear()
                shared.update(spec)
                spec = shared
                bump('lookups_reusing_one_description_object')
            kindx, accept, ke_ok = expected(tname, op['dw'], op['k3'], op['s2'])
            n_reg = len(registered[tname])
            pending = any(o['op'] == 'reg' for o in case['ops'][i + 1:])
            if pending:
                bump('fault_lookup_during_registration')
            try:
                got = cs[(tmap[tname], spec)]
                label = ident.get(id(got), '?')
            except KeyError as e:
                label = 'KeyError'
            bump('lookups')
            bump('lookup_' + kindx)
            cover['pattern_set_and_order'].add(tname.replace('Conv1d', 'conv').replace('Conv2d', 'conv') + ':' +
                                               '>'.join(p for p, _ in registered[tname]))
            if n_reg >= 2 and noncanonical(tname):
                nontrivial = True
                bump('lookups_under_noncanonical_order')
            events.append(f"{i} lookup {tname} dw={op['dw']} k3={op['k3']} s2={op['s2']} regs="
                          f"{[p for p, _ in registered[tname]]} -> {label} (ref {kindx})")
            if related and kindx == 'M0D':
                # nothing of the layer's own type applies: whether a pattern of a base class does is outside the statement
                bump('lookup_own_type_silent_related_type_registered_not_compared')
            elif label == 'KeyError':
                if not ke_ok:
                    fail('lookup raised although at most one constrained pattern matches',
                         f'lookup:{kindx}:KeyError',
                         f"{tname} spec={spec} registered(in order)={[p for p, _ in registered[tname]]}")
            elif label not in accept:
                what = 'DEFAULT' if label == 'DEFAULT' else \
                    next((p for p, f in registered[tname] if f == label), '?')
                fail('lookup returned the wrong function', f'lookup:{kindx}:got={what}',
                     f"{tname} spec={spec} registered(in order)={[p for p, _ in registered[tname]]} "
                     f"got={label} acceptable={sorted(map(str, accept))}")
            elif label == 'DEFAULT':
                # the default must behave as configured
                try:
                    v = float(got(spec))
                    if case['default'] != 'zero' or v != 0.0:
                        fail('default function misbehaves', 'lookup:default:value', f'{v}')
                except KeyError:
                    if case['default'] != 'fail':
                        fail('default function misbehaves', 'lookup:default:raises', '')
        elif kind == 'pit' and related:
            # (the reference totals below assume exact type matching for layers no own pattern applies to)
            bump('pit_construction_skipped_related_type_registered')
        elif kind == 'pit':
            layers = _net_layers(op['net'])
            torch.manual_seed(1234 + op['net'])
            net = _pit_net(op['net'])
            bump('pit_constructions')
            pending = any(o['op'] == 'reg' for o in case['ops'][i + 1:])
            if pending:
                bump('fault_pit_build_during_registration')
            # reference: possible totals
            totals = {0.0}
            ke_ok = False
            must_raise = False
            any_nc = False
            for (lname, tname, dw, k3, s2) in layers:
                kindx, accept, ke = expected(tname, dw, k3, s2)
                ke_ok = ke_ok or ke
                if noncanonical(tname):
                    any_nc = True
                if accept == {'DEFAULT'}:
                    if case['default'] == 'fail':
                        must_raise = True
                    cand = [0.0]
                else:
                    cand = [0.0 if a == 'DEFAULT' else vals[a] for a in accept]
                    if 'DEFAULT' in accept and case['default'] == 'fail':
                        ke_ok = True          # one acceptable answer is the failing default function
                totals = {t + c for t in totals for c in cand}
            try:
                pit = PIT(net, cost=cs, input_shape=(3, 6, 6))
                got = float(pit.cost)
                outcome = 'cost'
            except KeyError as e:
                outcome = 'KeyError'
                got = None
            events.append(f"{i} pit net{op['net']} -> {outcome} {got} (ref totals {sorted(totals)[:4]} "
                          f"must_raise={must_raise} ke_ok={ke_ok})")
            if any_nc:
                nontrivial = True
                bump('pit_cost_under_noncanonical_order')
            if outcome == 'KeyError':
                if not (ke_ok or must_raise):
                    fail('PIT construction/cost raised KeyError although every layer has a unique model',
                         'pit:unexpected-KeyError',
                         f"net{op['net']} registered={ {t: [p for p, _ in r] for t, r in registered.items() if r} }")
            else:
                if must_raise:
                    fail('PIT cost did not raise although a layer has no model and default is fail',
                         'pit:missing-KeyError', f"net{op['net']}")
                elif not any(abs(got - t) <= 1e-3 * max(1.0, abs(t)) for t in totals):
                    fail('PIT cost is not the sum of the functions the reference selects',
                         'pit:wrong-cost',
                         f"net{op['net']} got={got} acceptable={sorted(totals)[:6]} registered="
                         f"{ {t: [p for p, _ in r] for t, r in registered.items() if r} }")
        elif kind == 'builtin_permuted':
            # re-register a built-in specification in a seeded order: the PIT cost must not change
            orig = getattr(PC, op['spec'])
            try:
                triples = list(_builtin_triples(op['spec']))
            except Exception as e:         # the registrations of this built-in cannot be observed: nothing to permute
                bump('builtin_permutation_skipped_' + type(e).__name__)
                continue
            Stream(op['perm_seed'], 'perm').shuffle(triples)
            cs2 = CostSpec(shared=orig.shared, default_behavior='zero')
            cs2.default = orig.default
            for pat, constr, fn in triples:
                cs2[(pat, constr)] = fn
            first_u = True
            for pat in {p for p, c, f in triples}:
                iu = [i for i, (p, c, f) in enumerate(triples) if p is pat and c is None]
                ic = [i for i, (p, c, f) in enumerate(triples) if p is pat and c is not None]
                if iu and ic and min(ic) < iu[0]:
                    first_u = False
            torch.manual_seed(99 + op['net'])
            net_a = _pit_net(op['net'])
            torch.manual_seed(99 + op['net'])
            net_b = _pit_net(op['net'])
            bump('builtin_permutations')
            if not first_u:
                bump('fault_builtin_constrained_first')
                nontrivial = True
            ref = float(PIT(net_a, cost=orig, input_shape=(3, 6, 6)).cost)
            try:
                got = float(PIT(net_b, cost=cs2, input_shape=(3, 6, 6)).cost)
                outcome = 'cost'
            except KeyError:
                got = None
                outcome = 'KeyError'
            order = [(p.__name__, getattr(c, '__name__', None)) for p, c, f in triples]
            events.append(f"{i} builtin {op['spec']} order={order} -> {outcome} {got} ref={ref}")
            if outcome == 'KeyError':
                fail('built-in specification re-registered in another order raises KeyError',
                     'builtin:KeyError', f"{op['spec']} order={order}")
            elif abs(got - ref) > 1e-4 * max(1.0, abs(ref)):
                fail('built-in specification re-registered in another order gives another cost',
                     'builtin:cost-differs', f"{op['spec']} order={order} got={got} ref={ref}")
        elif kind == 'final_cross_check':
            # history check: the complete registration, replayed in library order and in reverse
            # order, must answer every probe like the interleaved one did (where specified)
            variants = {}
            for vname in ('library', 'reverse'):
                c2 = CostSpec(shared=True, default_behavior=case['default'])
                ident2 = {id(c2.default): 'DEFAULT'}
                if vname == 'library':
                    for rt, rfid in related:            # related types first ...
                        c2[(related_types[rt], None)] = fns[rfid]
                for t in TYPES:
                    regs = list(registered[t])
                    regs.sort(key=lambda pf: (pf[0] != 'U', pf[1]))
                    if vname == 'reverse':
                        regs.reverse()
                    for p, fid in regs:
                        c2[(tmap[t], cmap[p])] = c2.default if fid in default_fids else fns[fid]
                if vname == 'reverse':
                    for rt, rfid in reversed(related):  # ... or last
                        c2[(related_types[rt], None)] = fns[rfid]
                variants[vname] = c2
            for t in TYPES:
                if not registered[t]:
                    continue
                for bits in range(8):
                    dw, k3, s2 = bool(bits & 1), bool(bits & 2), bool(bits & 4)
                    if t == 'Linear' and bits:
                        continue
                    spec = layer_spec(t, dw, k3, s2)
                    kindx, accept, ke_ok = expected(t, dw, k3, s2)
                    answers = {}
                    for vname, c2 in list(variants.items()) + [('interleaved', cs)]:
                        try:
                            g = c2[(tmap[t], spec)]
                            answers[vname] = 'DEFAULT' if g is c2.default else ident.get(id(g), '?')
                        except KeyError:
                            answers[vname] = 'KeyError'
                    bump('history_probes')
                    if related and kindx == 'M0D':
                        continue
                    if kindx == 'M2':
                        # two constrained patterns match: what is returned is unspecified (conflict error or one of
                        # the matching functions) but the statement still requires the same answer in every order
                        bump('history_probes_two_constraints_match')
                        if len(set(map(str, answers.values()))) != 1:
                            fail('with two matching constrained patterns the answer depends on the registration order',
                                 'history:M2:order-dependent',
                                 f"{t} spec={spec} patterns={[p for p, _ in registered[t]]} answers={answers}")
                        continue
                    if len(set(map(str, answers.values()))) != 1:
                        bad = [v for v, a in answers.items() if a not in accept]
                        fail('the same registrations give different answers in different orders',
                             f'history:{kindx}:' + '+'.join(sorted(
                                 f'{v}={"KeyError" if answers[v] == "KeyError" else "wrong"}' for v in bad)),
                             f"{t} spec={spec} patterns={[p for p, _ in registered[t]]} answers={answers}")
            events.append(f'{i} final cross check')
    shape = json.dumps([[o['op'], o.get('type'), o.get('pat'), o.get('dw'), o.get('k3'), o.get('s2'),
                         o.get('net'), o.get('spec')] for o in case['ops']] + [case['default']])
    import hashlib
    return {'failures': failures, 'events': events, 'stats': stats, 'steps': steps,
            'nontrivial': nontrivial, 'shape': hashlib.sha256(shape.encode()).hexdigest(),
            'sim_time': steps, 'cover': {k: sorted(v) for k, v in cover.items()}}
