"""C18 — export, summary and cost are observers: they do not change the model.

Twin simulation: R runs a seeded training/configuration schedule; S runs the same schedule with 1-5
observer calls injected at seeded positions, biased to land inside in-flight work (between the forward
pass and the cost read of one step, between backward and optimizer step, right after a mode switch,
several in a row). After every base op S must equal R on returned values, parameters, gradients,
requires_grad and training flags; the final probe (cost and summary before any forward, outputs,
exported network) must be equal; two consecutive exports must be identical networks.
"""
import json
from sim.prng import Stream, mix
from sim import sched

ID = 'C18'
RULE = ('a case = (grammar architecture x method x constructor options incl. full_cost x single/dict cost spec) x '
        'a base schedule of 3-12 (thorough: up to 20) ops x 1-5 injected observer calls (export, export(add_bn=False), '
        'summary, str, cost, get_cost(name), cost_specification switched and switched back, parameter listing, '
        'nas_parameters_summary / get_total_icv), some '
        'in the middle of a training step; distinct = distinct normalised (method, options, architecture features, '
        'op-label sequence with injection points); non-trivial = an observer fired after at least one state-changing op '
        'and before at least one evaluated comparison against the observer-free reference')
ASSUMPTIONS = [
    'the scheduler re-seeds the torch RNG before every op on both replicas, so RNG consumption by an observer is '
    'not an observable difference (it is not what the statement speaks about)',
    'buffers that differ without any effect on outputs, cost, summary, parameters, gradients or training flags are '
    'counted (buffer_diverged_unflagged), not flagged',
    'float observations compared with rtol 1e-5 / atol 1e-6, discrete ones exactly',
]
COMPONENTS = {'PIT / MPS / SuperNet wrappers, all searchable layers, export, summary, cost, cost_specification setter': 'real',
              'seed networks': 'generated from a grammar', 'training loop and the interrupting observer calls': 'simulated'}
SIM_TIME_UNIT = 'ops of the simulated training loop'

BASE_WEIGHTS = {'ckpt': 0.8, 'train_burst': 0.4, 'train_step': 6, 'backward_only': 1.5, 'opt_step': 1.5, 'forward_only': 2, 'perturb_arch': 1.5, 'perturb_net': 0.8,
                'set_mode': 1.5, 'train_group': 1, 'set_flag': 0.7, 'softmax_opts': 1.2, 'read_cost': 2.5,
                'read_summary': 1}
OBS_WEIGHTS = {'export': 5, 'export_nobn': 1.5, 'summary': 3, 'str': 0.7, 'cost': 2, 'get_cost': 1.5,
               'switch_spec_and_back': 1.5, 'named_params': 0.5, 'state_dict': 0.3, 'nas_summary': 0.7}


def budget(tier):
    return {'runs': 4000, 'seconds': 75} if tier == 'quick' else {'runs': 200000, 'seconds': 1500}


SYSTEMATIC_OBS = ['export', 'summary', 'cost', 'switch_spec_and_back', 'export_nobn', 'str', 'get_cost', 'nas_summary']


def generate(seed, run, tier):
    # thorough: one schedule per block of 48 is systematically re-run with ONE observer at each position
    # (as an interrupt in the middle of the step when the op at that position is a training step and the
    # block index is odd)
    sys_pos = None
    base_run = run
    if tier == 'thorough':
        blk, off = divmod(run, 48)
        if off >= 8:
            base_run = blk * 48 + 7
            sys_pos = off - 8
    run_ = run
    run = base_run
    sw = Stream(seed, ID, run, 'swarm')
    ra = Stream(seed, ID, run, 'arch')
    rs = Stream(seed, ID, run, 'schedule')
    rf = Stream(seed, ID, run, 'faults')
    cfg = sched.gen_cfg(sw, ra)
    enabled = {k: (w if sw.chance(0.75) else 0) for k, w in BASE_WEIGHTS.items()}
    enabled['train_step'] = BASE_WEIGHTS['train_step']
    obs_enabled = {k: (w if sw.chance(0.6) else 0) for k, w in OBS_WEIGHTS.items()}
    if not any(obs_enabled.values()):
        obs_enabled['export'] = 5
    swarm = {'aborts': sw.chance(0.3)}
    n = sw.randint(3, 12 if tier == 'quick' else 20)
    ops = []
    for _ in range(n):
        op = sched.gen_base_op(cfg, rs, enabled, swarm)
        ops.append(op)
        if op['op'] == 'backward_only' and rs.chance(0.7):
            ops.append({'op': 'opt_step', 'which': op['which'], 'lr': op['lr']})
    ops = sched.add_mode_scopes(cfg, ops, Stream(seed, ID, run, 'mixed_mode'))
    if sys_pos is not None:
        blk = run_ // 48
        ob = {'op': SYSTEMATIC_OBS[blk % len(SYSTEMATIC_OBS)]}
        if ob['op'] == 'export_nobn' and cfg['method'] != 'pit':
            ob['op'] = 'export'
        if ob['op'] == 'switch_spec_and_back':
            ob['name'] = sched.other_cost(cfg, rf)
        out = list(ops)
        if sys_pos > len(out):
            # all positions of this schedule are already enumerated: use the slot for an ordinary seeded run
            return generate(seed, run_ + 10 ** 7, 'quick_from_thorough')
        pos = sys_pos
        if pos < len(out) and out[pos]['op'] in ('train_step', 'backward_only') and (blk % 2 == 1):
            out[pos] = dict(out[pos], mid=[ob])
        else:
            out.insert(pos, dict(ob, inject=True))
        return {'cfg': cfg, 'ops': out, 'run_seed': mix(seed, ID, run, 'run')}
    if swarm['aborts']:
        # an interrupted pass is often followed by a look at the model before the next complete pass
        ops2 = []
        for o in ops:
            ops2.append(o)
            if o.get('abort') and rs.chance(0.6):
                ops2.append({'op': rs.choice(['read_cost', 'read_cost', 'read_summary'])})
        ops = ops2
    if sw.chance(0.06):
        # observer storm: the same one or two observers are called at every op boundary (effects that need many calls)
        kinds = [sched.gen_observer(cfg, rf, obs_enabled) for _ in range(rf.randint(1, 2))]
        out = []
        for o in ops:
            out.append(dict(rf.choice(kinds), inject=True))
            out.append(o)
        out.append(dict(rf.choice(kinds), inject=True))
        return {'cfg': cfg, 'ops': out, 'run_seed': mix(seed, ID, run, 'run')}
    n_obs = rf.randint(1, 5)
    burst = rf.chance(0.3)
    out = list(ops)
    for j in range(n_obs):
        ob = sched.gen_observer(cfg, rf, obs_enabled)
        r = rf.random()
        steps = [i for i, o in enumerate(out) if o['op'] in ('train_step', 'backward_only') and not o.get('inject')]
        if r < 0.3 and steps:
            # interrupt: between the forward pass and the cost read of the same step
            i = rf.choice(steps)
            out[i] = dict(out[i])
            out[i].setdefault('mid', [])
            at = Stream(seed, ID, run, 'interrupt_point', j).wchoice([('mid', 6), ('pre_backward', 3), ('pre_forward', 1)])
            if at != 'mid':
                ob['at'] = at
            out[i]['mid'] = out[i]['mid'] + [ob]
            continue
        ob['inject'] = True
        if r < 0.5:
            # right before a read / right after a mode switch / between backward and optimizer step
            cand = [i for i, o in enumerate(out) if o['op'] in ('read_cost', 'read_summary', 'opt_step')] + \
                   [i + 1 for i, o in enumerate(out) if o['op'] in ('set_mode', 'backward_only', 'softmax_opts')] + \
                   [i + 1 for i, o in enumerate(out) if o.get('abort')] * 3
            if cand:
                out.insert(rf.choice(cand), ob)
                continue
        if burst and j > 0:
            idx = [i for i, o in enumerate(out) if o.get('inject')]
            if idx:
                out.insert(idx[-1] + 1, ob)
                continue
        out.insert(rf.randint(0, len(out)), ob)
    out = sched.add_bystanders(cfg, out, Stream(seed, ID, run, 'bystanders'))
    return {'cfg': cfg, 'ops': out, 'run_seed': mix(seed, ID, run, 'run')}


def sample_view(case):
    from sim.props.c17 import sample_view as sv
    return sv(case)


def shrink_candidates(case):
    from sim.props.c17 import shrink_candidates as sc
    yield from sc(case)
    # drop single mid observers
    for i, o in enumerate(case['ops']):
        if o.get('mid') and len(o['mid']) > 1:
            for j in range(len(o['mid'])):
                c = json.loads(json.dumps(case))
                c['ops'][i]['mid'].pop(j)
                yield c


def execute(case):
    from sim import twin
    return twin.run_twin(case, compare_sections=('params', 'rg', 'flags', 'grads'),
                         probe_forward_first=False, double_export=True)
