"""One integer decides everything: SplitMix64 streams derived by name.

No use of hash(), time, os.urandom or the `random` module. A stream is derived from a parent
seed and a *string* tag through sha256, so sub-streams are independent of the order in which
they are requested and of PYTHONHASHSEED.
"""
import hashlib

MASK = (1 << 64) - 1


def mix(seed: int, *tags) -> int:
    h = hashlib.sha256()
    h.update(str(int(seed) & MASK).encode())
    for t in tags:
        h.update(b'/')
        h.update(str(t).encode())
    return int.from_bytes(h.digest()[:8], 'big')


class Stream:
    __slots__ = ('state', 'draws')

    def __init__(self, seed: int, *tags):
        self.state = mix(seed, *tags) if tags else (int(seed) & MASK)
        self.draws = 0

    def u64(self) -> int:
        self.draws += 1
        self.state = (self.state + 0x9E3779B97F4A7C15) & MASK
        z = self.state
        z = ((z ^ (z >> 30)) * 0xBF58476D1CE4E5B9) & MASK
        z = ((z ^ (z >> 27)) * 0x94D049BB133111EB) & MASK
        return z ^ (z >> 31)

    def random(self) -> float:
        return (self.u64() >> 11) / float(1 << 53)

    def randint(self, a: int, b: int) -> int:
        """inclusive on both ends"""
        assert b >= a
        return a + self.u64() % (b - a + 1)

    def chance(self, p: float) -> bool:
        return self.random() < p

    def choice(self, seq):
        assert len(seq) > 0
        return seq[self.u64() % len(seq)]

    def wchoice(self, pairs):
        """pairs: list of (item, weight>=0)"""
        tot = sum(w for _, w in pairs)
        assert tot > 0
        x = self.random() * tot
        acc = 0.0
        for it, w in pairs:
            acc += w
            if x < acc:
                return it
        return pairs[-1][0]

    def shuffle(self, lst):
        for i in range(len(lst) - 1, 0, -1):
            j = self.u64() % (i + 1)
            lst[i], lst[j] = lst[j], lst[i]
        return lst

    def sample(self, seq, k):
        lst = list(seq)
        self.shuffle(lst)
        return lst[:k]

    def uniform(self, a: float, b: float) -> float:
        return a + (b - a) * self.random()

    def loguniform(self, a: float, b: float) -> float:
        import math
        return math.exp(self.uniform(math.log(a), math.log(b)))

    def child(self, *tags) -> 'Stream':
        return Stream(self.state, *tags)


def torch_seed(run_seed: int, *tags) -> int:
    """seed for torch.manual_seed (must fit in 63 bits)"""
    return mix(run_seed, 'torch', *tags) & ((1 << 62) - 1)
