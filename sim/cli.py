"""./check <ID> [--tier quick|thorough] [--replay FILE] ...   (see /verif/DESIGN.md §3)"""
import argparse
import json
import os
import sys

HERE = os.path.dirname(os.path.abspath(__file__))
VERIF = os.path.dirname(HERE)
if VERIF not in sys.path:
    sys.path.insert(0, VERIF)


def reexec_if_needed():
    want = {'PYTHONHASHSEED': os.environ.get('VERIF_HASHSEED', '0'), 'PYTHONDONTWRITEBYTECODE': '1',
            'OMP_NUM_THREADS': '1', 'MKL_NUM_THREADS': '1'}
    if any(os.environ.get(k) != v for k, v in want.items()):
        env = dict(os.environ)
        env.update(want)
        os.execve(sys.executable, [sys.executable] + sys.argv, env)


def main():
    reexec_if_needed()
    ap = argparse.ArgumentParser()
    ap.add_argument('prop')
    ap.add_argument('--tier', default=os.environ.get('VERIF_TIER', 'quick'), choices=['quick', 'thorough'])
    ap.add_argument('--seed', type=int, default=int(os.environ.get('VERIF_SEED', '0')))
    ap.add_argument('--runs', type=int, default=None)
    ap.add_argument('--budget', type=float, default=None)
    ap.add_argument('--workers', type=int, default=int(os.environ.get('VERIF_WORKERS', '0')) or min(16, os.cpu_count() or 1))
    ap.add_argument('--replay', default=None)
    ap.add_argument('--one', type=int, default=None, help='execute a single run index verbosely')
    ap.add_argument('--quiet', action='store_true')
    a = ap.parse_args()
    from sim import core
    pid = a.prop.upper()
    if pid == 'SELFTEST':
        from sim import selftest
        sys.exit(selftest.main(a))
    prop = core.get_prop(pid)
    if a.replay:
        core.setup_process()
        ok, res, rp = core.replay_file(a.replay)
        if res['harness_error']:
            print('HARNESS-ERROR ' + res['harness_error'])
            sys.exit(2)
        if not a.quiet:
            for ev in res.get('events', [])[-40:]:
                print('  ', ev)
        for f in res['failures']:
            print(f"failure: {f['clause']} sig={f['sig']}: {f.get('msg','')}")
        if ok:
            same = res['digest'] == rp['expect'].get('digest')
            print(f"reproduced sig={rp['expect']['sig']} digest_equal={same}")
            print(f"VIOLATION property={pid} replay={a.replay}")
            sys.exit(1)
        print('replay did not reproduce the recorded failure (property held on this case)')
        sys.exit(0)
    if a.one is not None:
        core.setup_process()
        case = prop.generate(a.seed, a.one, a.tier)
        print(json.dumps(prop.sample_view(case), sort_keys=True, indent=1))
        res = core.exec_case(pid, case)
        for ev in res.get('events', []):
            print('  ', ev)
        print('failures:', json.dumps(res['failures'], indent=1))
        print('stats:', res['stats'], 'digest', res['digest'][:16], 'harness_error', res['harness_error'])
        sys.exit(1 if res['failures'] else (2 if res['harness_error'] else 0))
    b = prop.budget(a.tier)
    runs = a.runs if a.runs is not None else b['runs']
    budget = a.budget if a.budget is not None else b['seconds']
    sys.exit(core.run_batch(pid, a.tier, a.seed, runs, budget, a.workers))


if __name__ == '__main__':
    main()
