#!/bin/bash
# offline setup: nothing to build. Verifies the interpreter and that plinio imports from /repo.
set -e
cd "$(dirname "$0")"
/venv/bin/python - <<'PY'
import sys
sys.path.insert(0, '/repo')
import torch, networkx, plinio
print('setup ok: python', sys.version.split()[0], 'torch', torch.__version__, 'plinio from', plinio.__file__)
PY
mkdir -p evidence replays
