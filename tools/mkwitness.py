"""tools/mkwitness.py <PID> <case.json|-> <out.json>: execute a hand-written case against the
current tree and store it, with the first failure it produces, as a witness replay file."""
import json, os, sys
HERE = os.path.dirname(os.path.abspath(__file__))
sys.path.insert(0, os.path.dirname(HERE))
from sim import core

pid, src, out = sys.argv[1], sys.argv[2], sys.argv[3]
case = json.load(sys.stdin if src == '-' else open(src))
if 'case' in case and 'property' in case:
    case = case['case']
core.setup_process()
res = core.exec_case(pid, case)
if res['harness_error']:
    print(res['harness_error']); sys.exit(2)
if not res['failures']:
    print('case does not fail on this tree'); sys.exit(3)
f = res['failures'][0]
want = os.environ.get('WITNESS_SIG')
if want:
    f = next(x for x in res['failures'] if x['sig'] == want)
p = core.write_replay(pid, 0, 0, case, f, res['digest'], directory=os.path.dirname(os.path.abspath(out)))
os.replace(p, out)
print('witness', out, f['sig'], f['clause'], f.get('msg', '')[:300])
