"""tools/benign.py <patch.diff> [...]: false-alarm test. Each behaviour-preserving patch is applied to a scratch
worktree of /repo HEAD and ALL six quick checks are run against it; every exit code must be 0.
Results are appended to /verif/benign/RESULTS.json; the patches are copied to /verif/benign/."""
import json, os, shutil, subprocess, sys, tempfile, time
VERIF = os.path.dirname(os.path.dirname(os.path.abspath(__file__)))
PROPS = ['C10', 'C11', 'C15', 'C17', 'C18', 'C19']
os.makedirs(os.path.join(VERIF, 'benign'), exist_ok=True)
rpath = os.path.join(VERIF, 'benign', 'RESULTS.json')
results = json.load(open(rpath)) if os.path.exists(rpath) else {}
budget = os.environ.get('BENIGN_BUDGET', '45')
for p in sys.argv[1:]:
    name = os.path.basename(os.path.dirname(os.path.dirname(p))).replace('seed_', '') + '_' + os.path.basename(p) \
        if '/OUT/' in p else os.path.basename(p)
    dst = os.path.join(VERIF, 'benign', name)
    if os.path.abspath(p) != os.path.abspath(dst):
        shutil.copy(p, dst)
    wt = tempfile.mkdtemp(prefix='plinio_ben_', dir='/tmp'); os.rmdir(wt)
    subprocess.run(['git', '-C', '/repo', 'worktree', 'add', '--detach', '-f', wt, 'HEAD', '-q'], check=True)
    try:
        ap = subprocess.run(['git', '-C', wt, 'apply', '--include=plinio/*', dst], capture_output=True, text=True)
        if ap.returncode != 0:
            print(f'{name}: PATCH DOES NOT APPLY {ap.stderr[:200]}')
            results[name] = {'applies': False}
            continue
        res = {}
        for pid in PROPS:
            t0 = time.time()
            env = dict(os.environ, PLINIO_SRC=wt, VERIF_NO_EVIDENCE='1')
            cp = subprocess.run([os.path.join(VERIF, 'check'), pid, '--tier', 'quick', '--budget', budget],
                                env=env, capture_output=True, text=True)
            line = next((l for l in cp.stdout.splitlines() if l.startswith(f'[{pid}] runs=')), '')
            viol = [l for l in cp.stdout.splitlines() if l.startswith(('violation:', 'HARNESS-ERROR'))]
            res[pid] = {'exit': cp.returncode, 'summary': line[:160], 'first': viol[0][:400] if viol else None}
            print(f'{name} [{pid}]: exit={cp.returncode} {"ok" if cp.returncode == 0 else "ALARM"} ({time.time()-t0:.0f}s) '
                  f'{viol[0][:300] if viol else ""}', flush=True)
        results[name] = res
    finally:
        subprocess.run(['git', '-C', '/repo', 'worktree', 'remove', '--force', wt], capture_output=True)
        shutil.rmtree(wt, ignore_errors=True)
    json.dump(results, open(rpath, 'w'), indent=1, sort_keys=True)
