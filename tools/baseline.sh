#!/bin/bash
# runs the repository's pinned baseline (guard off: plinio has no hooks) and compares with BASELINE.json
# usage: tools/baseline.sh [repo_dir]
REPO=${1:-/repo}
OUT=$(mktemp -d /tmp/baseline.XXXXXX)
cd "$REPO" && OMP_NUM_THREADS=${BASELINE_THREADS:-16} /venv/bin/python -m pytest -ra -q -p no:cacheprovider --timeout=900 --continue-on-collection-errors --junitxml=$OUT/junit.xml > $OUT/log.txt 2>&1
/venv/bin/python - "$OUT/junit.xml" <<'PY'
import json, sys, xml.etree.ElementTree as ET
base = json.load(open('/root/.vp/BASELINE.json'))
want = set(base['stable_pass'])
passed = set()
for tc in ET.parse(sys.argv[1]).getroot().iter('testcase'):
    if not any(ch.tag in ('failure', 'error', 'skipped') for ch in tc):
        passed.add(f"{tc.get('classname')}::{tc.get('name')}")
missing = sorted(want - passed)
print(f'baseline: {len(want)} expected, {len(want & passed)} pass, {len(missing)} missing, {len(passed - want)} extra passes')
for m in missing: print('  MISSING', m)
sys.exit(1 if missing else 0)
PY
rc=$?
rm -rf "$OUT"
exit $rc
