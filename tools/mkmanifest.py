"""Regenerates MANIFEST.json from the table below (keeps it valid at all times)."""
import json, os
HERE = os.path.dirname(os.path.dirname(os.path.abspath(__file__)))

CLAIMED = {
 'C15': dict(
    text='Seeded exploration: registrant tasks with their own program order are interleaved by a seeded scheduler '
         'while lookup tasks (direct lookups, real PIT constructions and cost reads, built-in specs re-registered '
         'in permuted order) run during and after registration; every answer is compared with an order-free '
         'reference dictionary and, over the recorded history, with the same registrations replayed in library '
         'and reverse order. The order space per layer type (<=24 orders of 4 patterns) is sampled, not enumerated; '
         'the evidence reports how many distinct (pattern set, order) pairs were seen.',
    note='Trusted: torch, the reference dictionary (40 lines), the README reading that >=2 matching constrained '
         'patterns is unspecified. Each pattern is registered at most once per specification.',
    tech='deterministic simulation: seeded interleaving of registrant/lookup tasks vs order-free reference model',
    ref='DESIGN.md §2 C15'),
 'C19': dict(
    text='Seeded exploration of virtual-time training timelines: the epoch clock handed to DUCCIO is driven by the '
         'simulator and suffers repeats, skips, backward jumps (resume from an older checkpoint), late first call and '
         'overshoot; costs of a stub or real PIT model move between calls. Every call is checked against the '
         'closed-form reference (value, per-metric effective strength read as gradient), and the recorded history is '
         'checked for monotonicity in the epoch, 1% start, saturation at half schedule and never exceeding the final '
         'strength; BaseRegularizer is checked as strength x cost.',
    note='Trusted: torch autograd, the closed-form reference. Precondition (positive finite final strengths) as in '
         'the statement; draws that do not meet it are counted, not checked. Float tolerance rtol 2e-4.',
    tech='deterministic simulation: virtual epoch clock with clock-jump faults, closed-form reference + history checks',
    ref='DESIGN.md §2 C19'),
}

PENDING = {
 'C10': 'check under construction in this session (planned as claimed: DESIGN.md §2 C10)',
 'C11': 'check under construction in this session (planned as claimed: DESIGN.md §2 C11)',
 'C17': 'check under construction in this session (planned as claimed: DESIGN.md §2 C17)',
 'C18': 'check under construction in this session (planned as claimed: DESIGN.md §2 C18)',
}

NA = {
 'C01': 'pure function of (architecture, mask values, input): one synchronous call, no schedule, clock, fault or interleaving for a simulator to control',
 'C02': 'pure function of (architecture, coefficients, input); no history or fault dimension',
 'C03': 'pure function of (architecture, coefficients, input); no history or fault dimension',
 'C04': 'pure function of (architecture, masks): cost vs cost of exported network, no schedule or crash point',
 'C05': 'pure function of (architecture, coefficients) after one eval forward; no schedule or crash point',
 'C06': 'pure function of (architecture, sampled coefficients); no schedule or crash point',
 'C07': 'one constructor call compared with its argument; no history, clock or fault',
 'C08': 'pure function of the mask-parameter vector; input generation only, nothing to schedule or fault',
 'C09': 'pure function of (graph, masks); topology/input generation only',
 'C12': 'pure function checked by derivatives and ordered pairs of parameter vectors, not by schedules',
 'C13': 'pure tensor functions of (input, bits, clip value)',
 'C14': 'pure function of (network, input); integer backends hold no state, order or time',
 'C16': 'pure scalar functions on a grid of layer descriptions',
 'C20': 'one deterministic call on a model / score matrix; no history, clock or fault',
}


def main():
    checks = []
    for pid in sorted(CLAIMED):
        c = CLAIMED[pid]
        checks.append({
            'property_id': pid,
            'quick_cmd': f'./check {pid} --tier quick',
            'thorough_cmd': f'./check {pid} --tier thorough',
            'evidence_file': f'/verif/evidence/{pid}.json',
            'replay_cmd_template': f'./check {pid} --replay {{path}}',
            'engine': 'plinio-dsim',
            'level_claimed': {'category': 'exploration', 'text': c['text'], 'design_ref': c['ref']},
            'level_note': c['note'],
            'technique': c['tech'],
        })
    na = [{'property_id': k, 'reason': v} for k, v in sorted({**NA, **PENDING}.items())]
    m = {
        'version': 1,
        'setup_cmd': './setup.sh',
        'hooks': {
            'guard': 'PLINIO_VERIF',
            'enable': 'no source hooks: every seam (torch RNG, epoch clock, registration order, state_dict '
                      'boundary, forward pre-hooks, module attributes) is reachable from outside; checks import '
                      '/repo working tree directly',
            'baseline_off_cmd': 'cd /repo && /venv/bin/python -m pytest -ra -q -p no:cacheprovider --timeout=900 '
                                '--continue-on-collection-errors',
            'source_commits': [],
            'add_only': True,
        },
        'engines': [{
            'name': 'plinio-dsim', 'path': '/verif/sim',
            'serves_properties': sorted(CLAIMED),
            'kind_free_text': 'hand-written deterministic simulator: SplitMix64 streams from VERIF_SEED decide '
                              'architecture, op schedule, fault positions, data and per-op torch seeds; twin replicas '
                              'of the real plinio wrappers; reference models; delta-debugging shrinker; replay files',
        }],
        'checks': checks,
        'not_applicable': na,
        'notes': 'See DESIGN.md. Exit codes: 0 held / 1 VIOLATION / 2 HARNESS-ERROR (never reported as 0). '
                 'Known findings: KNOWN_FINDINGS.txt (witness replays under known/).',
    }
    with open(os.path.join(HERE, 'MANIFEST.json'), 'w') as f:
        json.dump(m, f, indent=1)
    print('MANIFEST.json:', len(checks), 'checks,', len(na), 'not applicable')


if __name__ == '__main__':
    main()
