"""Regenerates MANIFEST.json from the table below (keeps it valid at all times)."""
import json, os
HERE = os.path.dirname(os.path.dirname(os.path.abspath(__file__)))

CLAIMED = {
 'C17': dict(
    text='Seeded exploration with crash-point injection: twin replicas of the real wrappers run the same seeded '
         'training/configuration schedule; the subject crashes at 1-3 seeded points (thorough: additionally every '
         'position of sampled schedules), only torch.save(state_dict()) bytes survive, the process is rebuilt under '
         'other process-level randomness (weights, input example), the script re-issues its configuration calls and '
         'load_state_dict must report no missing/unexpected keys. After every later op and in a final probe (eval and '
         'train outputs, every named cost, summary, exported network structure/weights/outputs) the subject must equal '
         'the never-crashed reference. Also generated: crash storms, a script prologue on the fresh wrapper (summary / cost / '
         'export / no_grad inference before loading), save / load of a checkpoint into the live model, training bursts, '
         'corner values (threshold masks, huge coefficients, collapsed clip values, ...), aborted forwards. The reference '
         'replica runs first and is recorded, so the subject cannot reach it through shared state. Also: both resume orders '
         '(configuration re-issued before / after the load), other models of the same process built and run in between '
         '(bystanders), MPS quantizer variants incl. per-layer qinfo entries, hardware cost models (gap8, mpic); two '
         'wrappers built by one script in one process must have the same state_dict keys and shapes. A clean '
         'batch is evidence, not proof.',
    note='Trusted: torch (autograd, state_dict, save/load). Restart protocol "config is code, state is data" '
         '(MPS temperature is deliberately not re-issued: the code registers it as a buffer). Volatile in-flight state '
         '(pending grads, autograd graphs on sampled coefficients) is dropped on the reference at a crash too. '
         'rtol 1e-5/atol 1e-6 for floats, exact for discrete observations.',
    tech='deterministic simulation: twin replicas, crash/restart fault injection at seeded points, real code as oracle',
    ref='DESIGN.md §2 C17'),
 'C18': dict(
    text='Seeded exploration with observer injection: twin replicas run the same seeded schedule; the subject '
         'additionally receives 1-5 observer calls (export, export(add_bn=False), summary, str, cost, get_cost, '
         'cost_specification switched and back, parameter listing, state_dict), some as interrupts between the forward '
         'pass and the cost read of one training step or between backward and optimizer step. After every base op '
         'returned values, parameters, gradients, requires_grad and training flags must equal the observer-free '
         'reference; the final probe reads cost and summary before any forward pass; two consecutive exports must be '
         'identical (structure, weights, outputs). Cost reads separated only by calls that cannot change the cost must agree '
         'on either replica (catches impure-but-idempotent observers). Observer storms, looks at the model right after an '
         'interrupted forward, interrupts before the pass and between the finished loss graph and backward(), '
         'user-held specification objects re-used across switches, other models of the same process '
         'built, trained and exported in between (bystanders), hardware cost models (gap8, mpic) in the switches.',
    note='Trusted: torch. The torch RNG is re-seeded before every op on both replicas (RNG consumption by an observer '
         'is not flagged). Buffer-only differences without observable effect are counted, not flagged. An observer '
         'that raises is caught by the simulated loop (whether export succeeds is not this property).',
    tech='deterministic simulation: twin replicas, observer calls injected as interrupts, real code as oracle',
    ref='DESIGN.md §2 C18'),
 'C11': dict(
    text='Seeded exploration of control-call histories (train_* groups, PIT train_features/rf/dilation/discrete_cost, '
         'SuperNet train_selection, update_softmax_options with single options and combinations, train/eval) '
         'interleaved with training steps, aborted forwards and crash/restart, against an abstract control-state '
         'reference model. Invariants after every op: nas/net parameters partition parameters() by identity; '
         'requires_grad equals the reference; frozen masks are never trainable, never receive gradients and never '
         'change value; samplers behave as the reference options say under a fixed torch seed; non-trainable groups '
         'get no gradient. The first runs of every batch enumerate ALL control-call sequences up to length 2 (thorough: 3) '
         'over the alphabet of the statement per method, followed by a training step of loss + cost; beyond that the '
         'statement asks for closure under reachability up to length 4, which the simulator samples: it reports the '
         'distinct abstract states/transitions reached.',
    note='Trusted: torch, the ~60-line reference model. Frozen set = PITFrozen* instances, cross-checked against the '
         'set derived from the architecture spec.',
    tech='deterministic simulation: seeded call histories with abort/crash faults vs abstract control-state reference model',
    ref='DESIGN.md §2 C11'),
 'C10': dict(
    text='Seeded exploration of histories of coefficient writes (top-2 gap >= 0.05), full option updates, mode '
         'switches, forwards, training steps, aborted forwards and crash/restart on MPS (per-layer, per-channel incl. '
         '0-bit, shared quantizers) and SuperNet (2-8 branches). Forward hooks capture the coefficients as used in each '
         'forward pass: probability vector; one-hot at the raw arg-max in eval mode and in hard non-Gumbel training; '
         'one-hot under hard Gumbel; untouched when sampling is disabled. After eval forwards and at the end summary() '
         'and export() are compared with the raw arg-max. Per-channel matrices up to 8 x 16; checkpoints written under '
         'other options than the ones in force when they are loaded back (after a load the reference adopts the options '
         'the model itself reports). One known finding (D7) is skipped narrowly and counted.',
    note='Trusted: torch, forward hooks. Ties (gap < 0.05) are skipped and counted. Output equality is C02/C03, not '
         'checked here. Option updates always pass every option (partial updates are C11).',
    tech='deterministic simulation: seeded option/mode/coefficient histories with abort/crash faults, monitored samplers vs arg-max reference',
    ref='DESIGN.md §2 C10'),
 'C15': dict(
    text='Seeded exploration: registrant tasks with their own program order are interleaved by a seeded scheduler '
         'while lookup tasks (direct lookups, real PIT constructions and cost reads, built-in specs re-registered '
         'in permuted order) run during and after registration; every answer is compared with an order-free '
         'reference dictionary and, over the recorded history, with the same registrations replayed in library '
         'and reverse order. User constraints are plain functions, lambdas, functools.partial objects, callable '
         'instances or bound methods; other specification objects are filled and queried in between; unconstrained '
         'patterns for related layer types (base classes, sub-classes) are registered in the same specification. The order space per layer type (<=24 orders of 4 patterns) is sampled, not enumerated; '
         'the evidence reports how many distinct (pattern set, order) pairs were seen.',
    note='Trusted: torch, the reference dictionary (40 lines), the README reading that >=2 matching constrained '
         'patterns is unspecified. Each pattern is registered at most once per specification.',
    tech='deterministic simulation: seeded interleaving of registrant/lookup tasks vs order-free reference model',
    ref='DESIGN.md §2 C15'),
 'C19': dict(
    text='Seeded exploration of virtual-time training timelines: the epoch clock handed to DUCCIO is driven by the '
         'simulator and suffers repeats, skips, backward jumps (resume from an older checkpoint), late first call and '
         'overshoot; costs of a stub or real PIT / MPS / SuperNet model move between calls; some calls die inside the '
         'regularizer (the model\'s get_cost raises at the k-th read) and are retried; further regularizer objects of the '
         'same process are called in between. Every call is checked against the '
         'closed-form reference (value, per-metric effective strength read as gradient), and the recorded history is '
         'checked for monotonicity in the epoch, 1% start, saturation at half schedule and never exceeding the final '
         'strength; BaseRegularizer is checked as strength x cost (value and gradient), also on one long-lived object whose '
         'strength and cost name the script re-assigns between calls.',
    note='Trusted: torch autograd, the closed-form reference. Precondition (positive finite final strengths) as in '
         'the statement; draws that do not meet it are counted, not checked. Float tolerance rtol 2e-4.',
    tech='deterministic simulation: virtual epoch clock with clock-jump faults, closed-form reference + history checks',
    ref='DESIGN.md §2 C19'),
}

PENDING = {}

NA = {
 'C01': 'pure function of (architecture, mask values, input): one synchronous call, no schedule, clock, fault or interleaving for a simulator to control',
 'C02': 'pure function of (architecture, coefficients, input); no history or fault dimension',
 'C03': 'pure function of (architecture, coefficients, input); no history or fault dimension',
 'C04': 'pure function of (architecture, masks): cost vs cost of exported network, no schedule or crash point',
 'C05': 'pure function of (architecture, coefficients) after one eval forward; no schedule or crash point',
 'C06': 'pure function of (architecture, sampled coefficients); no schedule or crash point',
 'C07': 'one constructor call compared with its argument; no history, clock or fault',
 'C08': 'pure function of the mask-parameter vector; input generation only, nothing to schedule or fault',
 'C09': 'pure function of (graph, masks); topology/input generation only',
 'C12': 'pure function checked by derivatives and ordered pairs of parameter vectors, not by schedules',
 'C13': 'pure tensor functions of (input, bits, clip value)',
 'C14': 'pure function of (network, input); integer backends hold no state, order or time',
 'C16': 'pure scalar functions on a grid of layer descriptions',
 'C20': 'one deterministic call on a model / score matrix; no history, clock or fault',
}


def main():
    checks = []
    for pid in sorted(CLAIMED):
        c = CLAIMED[pid]
        checks.append({
            'property_id': pid,
            'quick_cmd': f'./check {pid} --tier quick',
            'thorough_cmd': f'./check {pid} --tier thorough',
            'evidence_file': f'/verif/evidence/{pid}.json',
            'replay_cmd_template': f'./check {pid} --replay {{path}}',
            'engine': 'plinio-dsim',
            'level_claimed': {'category': 'exploration', 'text': c['text'], 'design_ref': c['ref']},
            'level_note': c['note'],
            'technique': c['tech'],
        })
    na = [{'property_id': k, 'reason': v} for k, v in sorted({**NA, **PENDING}.items())]
    m = {
        'version': 1,
        'setup_cmd': './setup.sh',
        'hooks': {
            'guard': 'PLINIO_VERIF',
            'enable': 'no source hooks: every seam (torch RNG, epoch clock, registration order, state_dict '
                      'boundary, forward pre-hooks, module attributes) is reachable from outside; checks import '
                      '/repo working tree directly',
            'baseline_off_cmd': 'cd /repo && /venv/bin/python -m pytest -ra -q -p no:cacheprovider --timeout=900 '
                                '--continue-on-collection-errors',
            'source_commits': [],
            'add_only': True,
        },
        'engines': [{
            'name': 'plinio-dsim', 'path': '/verif/sim',
            'serves_properties': sorted(CLAIMED),
            'kind_free_text': 'hand-written deterministic simulator: SplitMix64 streams from VERIF_SEED decide '
                              'architecture, op schedule, fault positions, data and per-op torch seeds; twin replicas '
                              'of the real plinio wrappers; reference models; delta-debugging shrinker; replay files',
        }],
        'checks': checks,
        'not_applicable': na,
        'notes': 'See DESIGN.md. Exit codes: 0 held / 1 VIOLATION / 2 HARNESS-ERROR (never reported as 0). '
                 'Known findings: KNOWN_FINDINGS.txt (witness replays under known/).',
    }
    with open(os.path.join(HERE, 'MANIFEST.json'), 'w') as f:
        json.dump(m, f, indent=1)
    print('MANIFEST.json:', len(checks), 'checks,', len(na), 'not applicable')


if __name__ == '__main__':
    main()
