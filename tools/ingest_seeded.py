"""tools/ingest_seeded.py <agent_worktree> <seeded_id> <property> : confirm a sub-agent's change and keep it.
Confirms in a fresh scratch worktree of /repo HEAD: patch applies; demo exits 1 with the patch and 0 without;
the pinned baseline (132 tests) still passes with the patch. Then stores /verif/seeded/<id>/{patch.diff,demo.py,notes.md,meta.json}."""
import json, os, shutil, subprocess, sys, tempfile
VERIF = os.path.dirname(os.path.dirname(os.path.abspath(__file__)))
awt, sid, prop = sys.argv[1:4]
skip_tests = '--skip-tests' in sys.argv
out = os.path.join(awt, 'OUT')
dst = os.path.join(VERIF, 'seeded', sid)
os.makedirs(dst, exist_ok=True)
patch = os.path.join(out, 'patch.diff')
# keep only source changes under plinio/
txt = open(patch).read()
wt = tempfile.mkdtemp(prefix='plinio_ing_', dir='/tmp'); os.rmdir(wt)
subprocess.run(['git', '-C', '/repo', 'worktree', 'add', '--detach', '-f', wt, 'HEAD', '-q'], check=True)
meta = {'property': prop, 'id': sid}
try:
    r0 = subprocess.run(['/venv/bin/python', os.path.join(out, 'demo.py'), wt], capture_output=True, text=True, timeout=1800)
    meta['demo_exit_without_patch'] = r0.returncode
    ap = subprocess.run(['git', '-C', wt, 'apply', '--include=plinio/*', patch], capture_output=True, text=True)
    meta['patch_applies'] = ap.returncode == 0
    if ap.returncode != 0:
        print('patch does not apply', ap.stderr)
    d = subprocess.check_output(['git', '-C', wt, 'diff'], text=True)
    open(os.path.join(dst, 'patch.diff'), 'w').write(d)
    r1 = subprocess.run(['/venv/bin/python', os.path.join(out, 'demo.py'), wt], capture_output=True, text=True, timeout=1800)
    meta['demo_exit_with_patch'] = r1.returncode
    meta['demo_output_with_patch'] = (r1.stdout + r1.stderr)[-600:]
    if not skip_tests:
        env = dict(os.environ, BASELINE_THREADS=os.environ.get('BASELINE_THREADS', '8'))
        bl = subprocess.run([os.path.join(VERIF, 'tools', 'baseline.sh'), wt], capture_output=True, text=True, env=env)
        meta['baseline_with_patch'] = bl.stdout.strip().splitlines()[:6]
        meta['baseline_ok'] = bl.returncode == 0
finally:
    subprocess.run(['git', '-C', '/repo', 'worktree', 'remove', '--force', wt], capture_output=True)
    shutil.rmtree(wt, ignore_errors=True)
for f in ('demo.py', 'notes.md'):
    if os.path.exists(os.path.join(out, f)):
        shutil.copy(os.path.join(out, f), os.path.join(dst, f))
mp = os.path.join(dst, 'meta.json')
old = json.load(open(mp)) if os.path.exists(mp) else {}
old.update(meta)
json.dump(old, open(mp, 'w'), indent=1, sort_keys=True)
print(json.dumps(meta, indent=1)[:1500])
