"""Sensitivity tool (DESIGN.md §3.6) - development aid, not a registered check.

For every patch under /verif/mutants/ (and /verif/seeded/*/patch.diff) a scratch worktree of /repo's
HEAD is created outside /repo and /verif, the patch is applied, the quick check of the property named
in the patch header ("# property: Cxx") is run with PLINIO_SRC pointing at the scratch tree, and the
worktree is removed. Expected: exit 1 (VIOLATION). Results are written to mutants/RESULTS.json.

usage: tools/sensitivity.py [name-substring ...] [--budget S] [--all-props]
"""
import json, os, subprocess, sys, tempfile, time, glob, shutil

VERIF = os.path.dirname(os.path.dirname(os.path.abspath(__file__)))


def header(path):
    props, desc = [], ''
    for line in open(path):
        if line.startswith('# property:'):
            props = line.split(':', 1)[1].split()
        elif line.startswith('# desc:'):
            desc = line.split(':', 1)[1].strip()
        elif not line.startswith('#'):
            break
    return props, desc


def main():
    args = [a for a in sys.argv[1:] if not a.startswith('--')]
    budget = '60'
    if '--budget' in sys.argv:
        budget = sys.argv[sys.argv.index('--budget') + 1]
        args = [a for a in args if a != budget]
    patches = sorted(glob.glob(os.path.join(VERIF, 'mutants', '*.diff')))
    for d in sorted(glob.glob(os.path.join(VERIF, 'seeded', '*'))):
        p = os.path.join(d, 'patch.diff')
        if os.path.exists(p):
            patches.append(p)
    if args:
        patches = [p for p in patches if any(a in p for a in args)]
    results = {}
    rpath = os.path.join(VERIF, 'mutants', 'RESULTS.json')
    if os.path.exists(rpath):
        results = json.load(open(rpath))
    for p in patches:
        name = os.path.relpath(p, VERIF)
        if p.endswith('patch.diff'):
            meta = json.load(open(os.path.join(os.path.dirname(p), 'meta.json')))
            props, desc = [meta['property']], meta.get('needs', '')
        else:
            props, desc = header(p)
        wt = tempfile.mkdtemp(prefix='plinio_mut_', dir='/tmp')
        os.rmdir(wt)
        subprocess.run(['git', '-C', '/repo', 'worktree', 'add', '--detach', '-f', wt, 'HEAD', '-q'], check=True)
        try:
            ap = subprocess.run(['git', '-C', wt, 'apply', p], capture_output=True, text=True)
            if ap.returncode != 0:
                print(f'{name}: PATCH DOES NOT APPLY: {ap.stderr.strip()[:300]}')
                results[name] = {'applies': False}
                continue
            for pid in props:
                t0 = time.time()
                env = dict(os.environ, PLINIO_SRC=wt, VERIF_NO_EVIDENCE='1')
                cp = subprocess.run([os.path.join(VERIF, 'check'), pid, '--tier', 'quick', '--budget', budget],
                                    env=env, capture_output=True, text=True)
                viol = [l for l in cp.stdout.splitlines() if l.startswith('violation:')]
                runs = next((l for l in cp.stdout.splitlines() if l.startswith(f'[{pid}] runs=')), '')
                results.setdefault(name, {})[pid] = {
                    'exit': cp.returncode, 'detected': cp.returncode == 1, 'wall_s': round(time.time() - t0, 1),
                    'first_violation': viol[0][:300] if viol else None, 'summary': runs[:200], 'desc': desc}
                print(f'{name} [{pid}]: exit={cp.returncode} {"DETECTED" if cp.returncode == 1 else "MISSED"} '
                      f'({time.time() - t0:.0f}s) {viol[0][:200] if viol else ""}', flush=True)
                if cp.returncode == 2:
                    print(cp.stdout[-1500:])
        finally:
            subprocess.run(['git', '-C', '/repo', 'worktree', 'remove', '--force', wt], capture_output=True)
            shutil.rmtree(wt, ignore_errors=True)
            json.dump(results, open(rpath, 'w'), indent=1, sort_keys=True)


if __name__ == '__main__':
    main()
