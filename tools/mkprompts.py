"""tools/mkprompts.py <wave-letter> : write /tmp/w/agent_prompt_<prop>_<wave>.txt for a wave of independent
sub-agents (they get the property text and a scratch worktree, nothing from /verif) and create the worktrees."""
import json, os, subprocess, sys
VERIF = os.path.dirname(os.path.dirname(os.path.abspath(__file__)))
wave = sys.argv[1]
covered = json.load(open(os.path.join(VERIF, 'tools', 'covered.json')))
props = {json.loads(l)['id']: json.loads(l) for l in open(os.path.join(VERIF, 'properties.jsonl'))}
tmpl = open(os.path.join(VERIF, 'tools', 'agent_prompt.txt')).read()
os.makedirs('/tmp/w', exist_ok=True)
for prop, cov in covered.items():
    if len(sys.argv) > 2 and prop not in sys.argv[2:]:
        continue
    d = props[prop]
    ptxt = f"{d['title']}\n\n{d['statement']}\n\nQuantified over: {d['quantifier']['text']}\n\nCode anchors: {', '.join(d['anchors']['files'])}"
    wt = f'/tmp/seed_{prop}_{wave}'
    steer = ("ADDITIONAL STEER: free choice within the property, but your idea must be clearly DIFFERENT from all of these "
             f"already-covered ones: {cov}. Look for a part of the statement, a code path, a configuration or a kind of "
             "mistake that none of them touches, and prefer something a maintainer could really commit.")
    t = tmpl.replace('__WT__', wt).replace('__PROP__', ptxt).replace('__STEER__', steer)
    open(f'/tmp/w/agent_prompt_{prop}_{wave}.txt', 'w').write(t)
    if not os.path.exists(wt):
        subprocess.run(['git', '-C', '/repo', 'worktree', 'add', '--detach', '-f', wt, 'HEAD', '-q'], check=True)
    os.makedirs(wt + '/OUT', exist_ok=True)
    print(prop, wt, len(t))
